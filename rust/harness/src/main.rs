//! vrt: verification client of the real sc62015-core crate.
//! Each subcommand reads JSON lines on stdin and writes one JSON line per command on stdout.
mod flat;
mod exec;
mod threads;
mod regs;
mod timer;
mod tables;
mod mem;
mod rt;
mod cpubus;
mod lcd;
mod kbd;
mod sched;

use std::io::{self, BufRead, Write};
use std::sync::atomic::{AtomicU64, Ordering};

pub static PANICS: AtomicU64 = AtomicU64::new(0);

pub fn run_lines<F: FnMut(serde_json::Value) -> serde_json::Value>(mut f: F) {
    let stdin = io::stdin();
    let stdout = io::stdout();
    let mut out = io::BufWriter::new(stdout.lock());
    for line in stdin.lock().lines() {
        let line = match line {
            Ok(l) => l,
            Err(_) => break,
        };
        if line.trim().is_empty() {
            continue;
        }
        let v: serde_json::Value = match serde_json::from_str(&line) {
            Ok(v) => v,
            Err(e) => {
                let _ = writeln!(out, "{}", serde_json::json!({"harness_error": format!("bad json: {e}")}));
                continue;
            }
        };
        let r = f(v);
        let _ = writeln!(out, "{}", r);
    }
    let _ = out.flush();
}

fn main() {
    std::panic::set_hook(Box::new(|info| {
        PANICS.fetch_add(1, Ordering::SeqCst);
        let msg = info.to_string();
        LAST_PANIC.with(|p| *p.borrow_mut() = msg);
    }));
    let args: Vec<String> = std::env::args().collect();
    let cmd = args.get(1).map(|s| s.as_str()).unwrap_or("");
    match cmd {
        "exec" => exec::main(),
        "threads" => threads::main(),
        "regs" => regs::main(),
        "timer" => timer::main(),
        "tables" => tables::main(),
        "mem" => mem::main(),
        "rt" => rt::main(),
        "cpubus" => cpubus::main(),
        "lcd" => lcd::main(),
        "kbd" => kbd::main(),
        "sched" => sched::main(),
        _ => {
            eprintln!("usage: vrt <exec|...>");
            std::process::exit(64);
        }
    }
}

thread_local! {
    pub static LAST_PANIC: std::cell::RefCell<String> = std::cell::RefCell::new(String::new());
}

pub fn last_panic() -> String {
    LAST_PANIC.with(|p| p.borrow().clone())
}
