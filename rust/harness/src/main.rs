fn main(){ println!("{}", sc62015_core::SNAPSHOT_MAGIC); }
