//! sched: scripted cooperative tasks on the real AsyncDriver, and CPU equivalence async vs sync (C18).
//!
//! mode "tasks" (default)
//! in : {id, clock0, tasks:[{start_emit:null|u32, steps:[[kind,d,emit]..]}..], budgets:[b..], cycle_budgets:bool,
//!       max_calls}
//!      kind: "sleep" (sleep_cycles(d)) | "yield" (a future that returns Pending once without asking for a wake cycle)
//!      emit: null | u32  (emit_event(User(emit)) right after the resumption)
//!      budgets are used in order; when exhausted the last one repeats. A MaxCycles result with cycles_executed==0
//!      grows the *current* budget by one (the convention of AsyncRuntimeRunner::run_instructions).
//! out: {id, log:[[task,step,cycle,call]..], emits:[[task,event,cycle]..], results:[[event|-1,cycles_executed,clock_after,
//!       budget]..], done:n, calls:n, clock_end, panic?}
//!
//! mode "cpu"
//! in : {id, mode:"cpu", <rt scenario fields>, pre:[rt ops], n:[n1,n2..], slice:u64}
//! out: {id, sync:<obs>, sync1:<obs>, async:<obs>, stats:[[instr,cycles]..], errors..}
use sc62015_core::{
    current_cycle, emit_event, sleep_cycles, AsyncDriver, AsyncRuntimeRunner, CoreRuntime, DriverEvent,
};
use serde_json::{json, Value};
use std::cell::RefCell;
use std::future::Future;
use std::panic::{catch_unwind, AssertUnwindSafe};
use std::pin::Pin;
use std::rc::Rc;
use std::task::{Context, Poll};

struct YieldOnce {
    polled: bool,
}

impl Future for YieldOnce {
    type Output = ();
    fn poll(self: Pin<&mut Self>, _cx: &mut Context<'_>) -> Poll<()> {
        let this = self.get_mut();
        if this.polled {
            Poll::Ready(())
        } else {
            this.polled = true;
            Poll::Pending
        }
    }
}

#[derive(Clone)]
struct Step {
    kind: u8, // 0 sleep, 1 yield, 2 park (sleep_cycles(u64::MAX - d): must never come back), 3 nap2
    d: u64,
    emit: Option<u32>,
    d2: u64, // nap2: `let t = sleep_cycles(d2); sleep_cycles(d).await; t.await` - a sleep created before it is awaited
}

fn run_tasks(v: &Value) -> Value {
    let clock0 = v.get("clock0").and_then(|x| x.as_u64()).unwrap_or(0);
    let max_calls = v.get("max_calls").and_then(|x| x.as_u64()).unwrap_or(100_000);
    let budgets: Vec<u64> = v
        .get("budgets")
        .and_then(|b| b.as_array())
        .map(|a| a.iter().filter_map(|x| x.as_u64()).collect())
        .unwrap_or_else(|| vec![u64::MAX / 2]);
    let log: Rc<RefCell<Vec<(usize, i64, u64, u64)>>> = Rc::new(RefCell::new(Vec::new()));
    let emits: Rc<RefCell<Vec<(usize, u32, u64)>>> = Rc::new(RefCell::new(Vec::new()));
    let done = Rc::new(RefCell::new(0usize));
    let parked = Rc::new(RefCell::new(0usize));
    let call_no = Rc::new(RefCell::new(0u64));
    let disturb = v.get("disturb").and_then(|x| x.as_u64()).unwrap_or(0);
    // bit 2: the OTHER driver is created first
    let mut other_early = if disturb & 4 != 0 { Some(AsyncDriver::with_clock(clock0.wrapping_add(1000))) } else { None };
    let mut driver = AsyncDriver::with_clock(clock0);
    // bit 0: a second, independent driver lives on the same thread and is run between the calls of the first one
    let mut other = if disturb & 1 != 0 && other_early.is_none() {
        Some(AsyncDriver::with_clock(clock0.wrapping_add(1000)))
    } else {
        other_early.take()
    };
    if let Some(o) = other.as_mut() {
        o.spawn(async move {
            loop {
                sleep_cycles(5).await;
            }
        });
    }
    let tasks = v.get("tasks").and_then(|t| t.as_array()).cloned().unwrap_or_default();
    let ntasks = tasks.len();
    for (tid, t) in tasks.iter().enumerate() {
        let start_emit = t.get("start_emit").and_then(|x| x.as_u64()).map(|x| x as u32);
        let steps: Vec<Step> = t
            .get("steps")
            .and_then(|s| s.as_array())
            .map(|a| {
                a.iter()
                    .map(|s| Step {
                        kind: match s.get(0).and_then(|k| k.as_str()) {
                            Some("yield") => 1,
                            Some("park") => 2,
                            Some("nap2") => 3,
                            _ => 0,
                        },
                        d: s.get(1).and_then(|x| x.as_u64()).unwrap_or(0),
                        emit: s.get(2).and_then(|x| x.as_u64()).map(|x| x as u32),
                        d2: s.get(3).and_then(|x| x.as_u64()).unwrap_or(0),
                    })
                    .collect()
            })
            .unwrap_or_default();
        let log = log.clone();
        let emits = emits.clone();
        let done = done.clone();
        let parked = parked.clone();
        let call_no = call_no.clone();
        driver.spawn(async move {
            log.borrow_mut().push((tid, -1, current_cycle(), *call_no.borrow()));
            if let Some(e) = start_emit {
                emits.borrow_mut().push((tid, e, current_cycle()));
                emit_event(DriverEvent::User(e));
            }
            for (i, s) in steps.iter().enumerate() {
                if s.kind == 1 {
                    YieldOnce { polled: false }.await;
                } else if s.kind == 2 {
                    *parked.borrow_mut() += 1;
                    sleep_cycles(u64::MAX - s.d).await;
                } else if s.kind == 3 {
                    let later = sleep_cycles(s.d2);
                    sleep_cycles(s.d).await;
                    later.await;
                } else {
                    sleep_cycles(s.d).await;
                }
                log.borrow_mut().push((tid, i as i64, current_cycle(), *call_no.borrow()));
                if let Some(e) = s.emit {
                    emits.borrow_mut().push((tid, e, current_cycle()));
                    emit_event(DriverEvent::User(e));
                }
            }
            *done.borrow_mut() += 1;
        });
    }
    // longest sleep any task can ask for: after that many consecutive zero-progress calls (the budget grows by one each
    // time) a correct driver must have reached the next wake-up; more than that means tasks were lost -> stop, "stalled".
    let mut max_d = 1u64;
    for t in tasks.iter() {
        if let Some(st) = t.get("steps").and_then(|s| s.as_array()) {
            for s in st {
                if s.get(0).and_then(|k| k.as_str()) != Some("park") {
                    max_d = max_d.max(s.get(1).and_then(|x| x.as_u64()).unwrap_or(0));
                }
            }
        }
    }
    let stall_limit = max_d.saturating_add(8).min(max_calls);
    let mut zero_streak = 0u64;
    let mut stalled = false;
    let mut results: Vec<Value> = Vec::new();
    let mut calls = 0u64;
    let mut bi = 0usize;
    let mut cur = budgets.first().copied().unwrap_or(1);
    let mut panic: Option<String> = None;
    loop {
        if calls >= max_calls {
            break;
        }
        calls += 1;
        *call_no.borrow_mut() = calls;
        if let Some(o) = other.as_mut() {
            let _ = catch_unwind(AssertUnwindSafe(|| o.run_for(3)));
        }
        if disturb & 2 != 0 {
            // bit 1: host code blocks on a small future between two calls
            // (the host future emits an event of its own before it suspends: it belongs to nobody's task, block_on drops
            //  it, and no driver may ever return it)
            let _ = catch_unwind(AssertUnwindSafe(|| sc62015_core::async_driver::block_on(async {
                emit_event(DriverEvent::User(0x00BA_D0E7));
                sleep_cycles(2).await
            })));
        }
        let r = catch_unwind(AssertUnwindSafe(|| driver.run_for(cur)));
        let r = match r {
            Ok(r) => r,
            Err(_) => {
                panic = Some(crate::last_panic());
                break;
            }
        };
        let ev: i64 = match r.event {
            DriverEvent::MaxCycles => -1,
            DriverEvent::User(x) => x as i64,
        };
        results.push(json!([ev, r.cycles_executed, driver.clock(), cur]));
        if ev == -1 && *done.borrow() + *parked.borrow() >= ntasks {
            break;
        }
        if ev == -1 && r.cycles_executed == 0 {
            cur = cur.saturating_add(1);
            zero_streak += 1;
            if zero_streak > stall_limit && cur > max_d {
                stalled = true;
                break;
            }
        } else {
            zero_streak = 0;
            bi += 1;
            cur = budgets.get(bi).copied().unwrap_or(*budgets.last().unwrap_or(&1));
        }
    }
    let log_v: Vec<Value> = log.borrow().iter().map(|(a, b, c, d)| json!([a, b, c, d])).collect();
    let em_v: Vec<Value> = emits.borrow().iter().map(|(a, b, c)| json!([a, b, c])).collect();
    let done_n = *done.borrow();
    json!({"id": v.get("id").cloned().unwrap_or(Value::Null), "log": log_v, "emits": em_v, "results": results,
           "done": done_n, "parked": *parked.borrow(), "calls": calls, "clock_end": driver.clock(), "panic": panic, "stalled": stalled})
}

fn run_cpu(v: &Value) -> Value {
    let ns: Vec<usize> = v
        .get("n")
        .and_then(|b| b.as_array())
        .map(|a| a.iter().filter_map(|x| x.as_u64()).map(|x| x as usize).collect())
        .unwrap_or_else(|| vec![1]);
    let slice = v.get("slice").and_then(|x| x.as_u64()).unwrap_or(1);
    let total: usize = ns.iter().sum();
    let mut errors: Vec<String> = Vec::new();
    // synchronous: one step(total) call
    let mut a = crate::rt::build(v);
    let ra = catch_unwind(AssertUnwindSafe(|| a.step(total)));
    let sync_err = match ra {
        Ok(Ok(())) => Value::Null,
        Ok(Err(e)) => json!(e.to_string()),
        Err(_) => json!(format!("panic: {}", crate::last_panic())),
    };
    let mut oa = crate::rt::obs(&a, true);
    crate::rt::obs_full(&a, &mut oa);
    // synchronous: total x step(1)
    let mut b = crate::rt::build(v);
    let mut sync1_err = Value::Null;
    for _ in 0..total {
        match catch_unwind(AssertUnwindSafe(|| b.step(1))) {
            Ok(Ok(())) => {}
            Ok(Err(e)) => {
                sync1_err = json!(e.to_string());
                break;
            }
            Err(_) => {
                sync1_err = json!(format!("panic: {}", crate::last_panic()));
                break;
            }
        }
    }
    let mut ob = crate::rt::obs(&b, true);
    crate::rt::obs_full(&b, &mut ob);
    // asynchronous: AsyncRuntimeRunner over the same runtime, possibly in several calls
    let c = Rc::new(RefCell::new(crate::rt::build(v)));
    let mut stats: Vec<Value> = Vec::new();
    let mut async_err = Value::Null;
    {
        let mut runner = AsyncRuntimeRunner::new(c.clone()).with_slice_cycles(slice);
        for n in ns.iter() {
            let r = catch_unwind(AssertUnwindSafe(|| runner.run_instructions(*n)));
            match r {
                Ok(Ok(s)) => stats.push(json!([s.instructions_executed, s.cycles_executed])),
                Ok(Err(e)) => {
                    async_err = json!(e.to_string());
                    break;
                }
                Err(_) => {
                    async_err = json!(format!("panic: {}", crate::last_panic()));
                    errors.push("async panic".into());
                    break;
                }
            }
        }
    }
    let oc = match c.try_borrow() {
        Ok(rt) => {
            let mut o = crate::rt::obs(&rt, true);
            crate::rt::obs_full(&rt, &mut o);
            o
        }
        Err(_) => json!({"borrow_error": true}),
    };
    json!({"id": v.get("id").cloned().unwrap_or(Value::Null), "sync": oa, "sync1": ob, "async": oc, "stats": stats,
           "sync_err": sync_err, "sync1_err": sync1_err, "async_err": async_err, "errors": errors})
}

pub fn main() {
    crate::run_lines(|v| {
        if v.get("mode").and_then(|m| m.as_str()) == Some("cpu") {
            run_cpu(&v)
        } else {
            run_tasks(&v)
        }
    });
}

#[allow(dead_code)]
fn _unused(_: &CoreRuntime) {}
