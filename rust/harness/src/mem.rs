//! mem: configure a real MemoryImage and run a history of loads/stores, reporting every backing-store change.
//! in : {id, config:{mirror, card:null|"absent"|<size>, card_seed, overlays:[{kind:"ram"|"rom",start,size,seed,name}],
//!       readonly:[[s,e]..]}, ops:[["ld",addr,bits]|["st",addr,bits,value]|["rb",addr]]}
//! out: {id, out:[ {v:..} | {ok:bool, changed:[[store,index,old,new]..]} ]}
use crate::flat::fill_byte;
use sc62015_core::memory::MemoryImage;
use serde_json::{json, Value};

fn seeded(seed: u32, n: usize) -> Vec<u8> {
    (0..n).map(|i| fill_byte(seed.wrapping_mul(0x10000).wrapping_add(i as u32))).collect()
}

struct Shadow {
    external: Vec<u8>,
    internal: Vec<u8>,
    overlays: Vec<(String, Vec<u8>)>,
}

fn snapshot(m: &MemoryImage) -> Shadow {
    Shadow {
        external: m.external_slice().to_vec(),
        internal: m.internal_slice().to_vec(),
        overlays: m.overlays().iter().map(|o| (o.name.clone(), o.data.clone().unwrap_or_default())).collect(),
    }
}

fn diff(a: &Shadow, b: &Shadow) -> Vec<Value> {
    let mut out = Vec::new();
    if a.external != b.external {
        for (i, (x, y)) in a.external.iter().zip(b.external.iter()).enumerate() {
            if x != y {
                out.push(json!(["external", i, x, y]));
            }
        }
    }
    for (i, (x, y)) in a.internal.iter().zip(b.internal.iter()).enumerate() {
        if x != y {
            out.push(json!(["internal", i, x, y]));
        }
    }
    for ((n, da), (_, db)) in a.overlays.iter().zip(b.overlays.iter()) {
        if da != db {
            for (i, (x, y)) in da.iter().zip(db.iter()).enumerate() {
                if x != y {
                    out.push(json!([n, i, x, y]));
                }
            }
        }
    }
    out
}

pub fn build(cfg: &Value) -> MemoryImage {
    let mut m = MemoryImage::new();
    if cfg.get("mirror").and_then(|b| b.as_bool()).unwrap_or(false) {
        m.set_internal_ram_mirror(true);
    }
    // earlier slot operations of the same image ("absent"/"present"/size): the final state is given by "card" below, the
    // history must not leave anything behind
    if let Some(hist) = cfg.get("card_history").and_then(|h| h.as_array()) {
        for h in hist {
            match h {
                Value::String(s) if s == "absent" => m.set_memory_card_slot_present(false),
                Value::String(s) if s == "present" => m.set_memory_card_slot_present(true),
                Value::Number(n) => {
                    let _ = m.load_memory_card(&seeded(3, n.as_u64().unwrap_or(0) as usize));
                }
                _ => {}
            }
        }
    }
    match cfg.get("card") {
        Some(Value::String(s)) if s == "absent" => m.set_memory_card_slot_present(false),
        Some(Value::String(s)) if s == "present" => m.set_memory_card_slot_present(true),
        Some(Value::Number(n)) => {
            let size = n.as_u64().unwrap_or(0) as usize;
            let seed = cfg.get("card_seed").and_then(|x| x.as_u64()).unwrap_or(7) as u32;
            let _ = m.load_memory_card(&seeded(seed, size));
        }
        _ => {}
    }
    if let Some(ovs) = cfg.get("overlays").and_then(|o| o.as_array()) {
        for o in ovs {
            let start = o.get("start").and_then(|x| x.as_u64()).unwrap_or(0) as u32;
            let size = o.get("size").and_then(|x| x.as_u64()).unwrap_or(0) as usize;
            let seed = o.get("seed").and_then(|x| x.as_u64()).unwrap_or(1) as u32;
            let name = o.get("name").and_then(|x| x.as_str()).unwrap_or("ov");
            match o.get("kind").and_then(|x| x.as_str()).unwrap_or("ram") {
                "rom" => m.add_rom_overlay(start, &seeded(seed, size), name),
                _ => m.add_ram_overlay(start, size, name),
            }
        }
    }
    if let Some(ro) = cfg.get("readonly").and_then(|o| o.as_array()) {
        let ranges: Vec<(u32, u32)> = ro
            .iter()
            .filter_map(|p| Some((p.get(0)?.as_u64()? as u32, p.get(1)?.as_u64()? as u32)))
            .collect();
        m.set_readonly_ranges(ranges);
    }
    m
}

pub fn main() {
    crate::run_lines(|v| {
        let mut m = build(v.get("config").unwrap_or(&Value::Null));
        let mut out = Vec::new();
        if let Some(ops) = v.get("ops").and_then(|o| o.as_array()) {
            for op in ops {
                let name = op.get(0).and_then(|n| n.as_str()).unwrap_or("");
                let addr = op.get(1).and_then(|n| n.as_u64()).unwrap_or(0) as u32;
                let bits = op.get(2).and_then(|n| n.as_u64()).unwrap_or(8) as u8;
                match name {
                    "ld" => out.push(json!({"v": m.load(addr, bits)})),
                    "rb" => out.push(json!({"v": m.read_byte(addr)})),
                    "st" => {
                        let val = op.get(3).and_then(|n| n.as_u64()).unwrap_or(0) as u32;
                        let before = snapshot(&m);
                        let ok = m.store(addr, bits, val).is_some();
                        let after = snapshot(&m);
                        out.push(json!({"ok": ok, "changed": diff(&before, &after)}));
                    }
                    _ => out.push(json!({"bad": name})),
                }
            }
        }
        json!({"id": v.get("id").cloned().unwrap_or(Value::Null), "out": out})
    });
}
