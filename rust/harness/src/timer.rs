//! timer: drive the real TimerContext::tick_timers with a monotone cycle sequence.
//! in : {id, enabled, mti, sti, ops:[["tick",c]|["reset",c]|["snap",c]|["clear_isr"]...]}
//! out: {id, out:[[fired_mti, fired_sti, next_mti, next_sti, isr] per tick / [] otherwise]}
use sc62015_core::memory::MemoryImage;
use sc62015_core::timer::TimerContext;
use serde_json::{json, Value};

pub fn main() {
    crate::run_lines(|v| {
        let enabled = v.get("enabled").and_then(|x| x.as_bool()).unwrap_or(true);
        let mti = v.get("mti").and_then(|x| x.as_i64()).unwrap_or(0) as i32;
        let sti = v.get("sti").and_then(|x| x.as_i64()).unwrap_or(0) as i32;
        let mut ctx = TimerContext::new(enabled, mti, sti);
        let mut mem = MemoryImage::new();
        let mut out: Vec<Value> = Vec::new();
        if let Some(ops) = v.get("ops").and_then(|o| o.as_array()) {
            for op in ops {
                let name = op.get(0).and_then(|n| n.as_str()).unwrap_or("");
                let c = op.get(1).and_then(|n| n.as_u64()).unwrap_or(0);
                match name {
                    "tick" => {
                        let (a, b) = ctx.tick_timers(&mut mem, c, None);
                        let isr = mem.read_internal_byte(0xFC).unwrap_or(0);
                        out.push(json!([a, b, ctx.next_mti, ctx.next_sti, isr]));
                    }
                    "reset" => {
                        ctx.reset(c);
                        out.push(json!([]));
                    }
                    "snap" => {
                        let (t, i) = ctx.snapshot_info();
                        let mut fresh = TimerContext::new(false, 0, 0);
                        fresh.apply_snapshot_info(&t, &i, c);
                        ctx = fresh;
                        out.push(json!([]));
                    }
                    "clear_isr" => {
                        mem.write_internal_byte(0xFC, 0);
                        out.push(json!([]));
                    }
                    _ => out.push(json!(["bad op"])),
                }
            }
        }
        json!({"id": v.get("id").cloned().unwrap_or(Value::Null), "out": out})
    });
}
