//! threads: run every program single-threaded (reference), then on K threads concurrently (each thread
//! its own executor/state/bus; the crate's process-wide PERF_* atomics are shared) with seeded
//! yield_now() injection between steps. Reports any per-step difference from the reference trace.
//! in : one line {programs:[case...], threads:K, steps:N, seed:S}
//! out: {programs, threads, steps_compared, mismatches:[...], yields}
use crate::exec::{load_case, one_step};
use crate::flat::FlatBus;
use sc62015_core::llama::eval::LlamaExecutor;
use sc62015_core::llama::state::{LlamaState, PowerState};
use serde_json::{json, Value};
use std::sync::Arc;

fn run_one(case: &Value, steps: u64, mut rng: u64, inject: bool, yields: &mut u64) -> Vec<String> {
    let mut bus = FlatBus::new();
    let mut state = LlamaState::new();
    let mut exec = LlamaExecutor::new();
    load_case(case, &mut bus, &mut state);
    let mut out = Vec::new();
    for _ in 0..steps {
        if inject {
            rng = rng.wrapping_mul(6364136223846793005).wrapping_add(1442695040888963407);
            let k = (rng >> 60) & 3;
            for _ in 0..k {
                std::thread::yield_now();
                *yields += 1;
            }
        }
        let o = one_step(&mut exec, &mut state, &mut bus);
        let stop = o.get("err").is_some() || o.get("panic").is_some();
        out.push(o.to_string());
        if stop || state.power_state() != PowerState::Running {
            break;
        }
    }
    out
}

pub fn main() {
    crate::run_lines(|v| {
        let progs: Vec<Value> = v.get("programs").and_then(|p| p.as_array()).cloned().unwrap_or_default();
        let k = v.get("threads").and_then(|t| t.as_u64()).unwrap_or(8) as usize;
        let steps = v.get("steps").and_then(|t| t.as_u64()).unwrap_or(100);
        let seed = v.get("seed").and_then(|t| t.as_u64()).unwrap_or(1);
        let mut dummy = 0u64;
        let reference: Vec<Vec<String>> = progs.iter().map(|p| run_one(p, steps, 0, false, &mut dummy)).collect();
        let reference = Arc::new(reference);
        let progs = Arc::new(progs);
        let mut handles = Vec::new();
        for t in 0..k {
            let reference = Arc::clone(&reference);
            let progs = Arc::clone(&progs);
            handles.push(std::thread::spawn(move || {
                let mut mism = Vec::new();
                let mut compared = 0u64;
                let mut yields = 0u64;
                // each thread walks the programs in a different rotation so different programs overlap
                let n = progs.len();
                for j in 0..n {
                    let idx = (j + t * 7) % n;
                    let tr = run_one(&progs[idx], steps, seed ^ ((t as u64) << 32) ^ j as u64, true, &mut yields);
                    let rf = &reference[idx];
                    compared += tr.len().min(rf.len()) as u64;
                    if &tr != rf {
                        let first = tr.iter().zip(rf.iter()).position(|(a, b)| a != b).unwrap_or(tr.len().min(rf.len()));
                        mism.push(json!({"thread": t, "program": idx, "first_step": first,
                                         "got": tr.get(first), "want": rf.get(first)}));
                    }
                }
                (mism, compared, yields)
            }));
        }
        let mut all = Vec::new();
        let mut compared = 0u64;
        let mut yields = 0u64;
        for h in handles {
            match h.join() {
                Ok((m, c, y)) => {
                    all.extend(m);
                    compared += c;
                    yields += y;
                }
                Err(_) => all.push(json!({"thread_panicked": true})),
            }
        }
        json!({"programs": progs.len(), "threads": k, "steps_compared": compared, "yields": yields, "mismatches": all})
    });
}
