//! rt: scriptable driver of the real CoreRuntime (C11 cpu path, C12, C13 machine level, C16, C18).
//! in : {id, code:[[addr,hex]..], rom_ro:bool, regs:{..}, imem:{off:val}, timer:{enabled,mti,sti,kb_irq},
//!       obs_lcd:bool, script:[op..]}
//! ops: ["step"] ["stepn",n] ["press",code] ["release",code] ["on",0|1] ["wimem",off,val] ["imem_or",off,m]
//!      ["imem_and",off,m] ["obs"] ["save",path] ["load",path] ["ld",addr,bits] ["wext",addr,val]
//! out: {id, out:[obs|value..], error?}
use sc62015_core::llama::opcodes::RegName;
use sc62015_core::llama::state::PowerState;
use sc62015_core::timer::TimerContext;
use sc62015_core::CoreRuntime;
use serde_json::{json, Value};
use std::panic::{catch_unwind, AssertUnwindSafe};

const IMEM: u32 = 0x100000;

fn hexbytes(h: &str) -> Vec<u8> {
    (0..h.len() / 2).filter_map(|i| u8::from_str_radix(&h[2 * i..2 * i + 2], 16).ok()).collect()
}

fn crc32(data: &[u8]) -> u32 {
    let mut crc = 0xFFFF_FFFFu32;
    for &b in data {
        crc ^= b as u32;
        for _ in 0..8 {
            crc = if crc & 1 != 0 { (crc >> 1) ^ 0xEDB8_8320 } else { crc >> 1 };
        }
    }
    !crc
}

pub fn obs_full(rt: &CoreRuntime, o: &mut Value) {
    let hex: String = rt.memory.internal_slice().iter().map(|b| format!("{:02x}", b)).collect();
    o["imem"] = json!(hex);
    let ext = rt.memory.external_slice();
    let mut buf: Vec<u8> = Vec::new();
    buf.extend_from_slice(&ext[0xB8000..0xB8200]);
    buf.extend_from_slice(&ext[0xB8F00..0xBA010]);
    o["ram_crc"] = json!(crc32(&buf));
    o["rom_crc"] = json!(crc32(&ext[0xC0000..0xC0400]));
    let mut win: Vec<u8> = Vec::new();
    win.extend_from_slice(&ext[0x2000..0x2010]);
    win.extend_from_slice(&ext[0xA000..0xA010]);
    o["lcdwin_crc"] = json!(crc32(&win));
    o["call_depth"] = json!(rt.state.call_depth());
    o["call_sub_level"] = json!(rt.state.call_sub_level());
    if let Some(kb) = rt.keyboard.as_ref() {
        let ks = kb.snapshot_state();
        let mut pressed = ks.pressed_keys.clone();
        pressed.sort();
        o["pressed"] = json!(pressed);
        o["kol"] = json!(ks.kol);
        o["koh"] = json!(ks.koh);
        o["kil_latch"] = json!(ks.kil_latch);
        let mut deb: Vec<(String, bool, u8, u8, u8)> = ks
            .key_states
            .iter()
            .filter(|(_, v)| v.pressed || v.debounced || v.press_ticks > 0 || v.release_ticks > 0 || v.repeat_ticks > 0)
            .map(|(k, v)| (k.clone(), v.debounced, v.press_ticks, v.release_ticks, v.repeat_ticks))
            .collect();
        deb.sort();
        o["key_states"] = json!(deb);
    }
    o["key_irq_latched"] = json!(rt.timer.key_irq_latched);
}

pub fn obs(rt: &CoreRuntime, lcd: bool) -> Value {
    let st = &rt.state;
    let s = st.get_reg(RegName::S);
    let mut stack = Vec::new();
    for d in -5i32..=5 {
        let a = (s as i64 + d as i64) as u32 & 0xFFFFF;
        stack.push(rt.memory.load(a, 8).unwrap_or(0));
    }
    let imr = rt.memory.read_internal_byte_silent(0xFB).unwrap_or(0);
    let isr = rt.memory.read_internal_byte_silent(0xFC).unwrap_or(0);
    let pc = st.pc();
    let mut o = json!({
        "pc": pc, "BA": st.get_reg(RegName::BA), "I": st.get_reg(RegName::I), "X": st.get_reg(RegName::X),
        "Y": st.get_reg(RegName::Y), "U": st.get_reg(RegName::U), "S": s, "f": st.get_reg(RegName::F) & 3,
        "imr": imr, "isr": isr, "stack": stack,
        "in_irq": rt.timer.in_interrupt, "irq_total": rt.timer.irq_total, "irq_key": rt.timer.irq_key,
        "irq_mti": rt.timer.irq_mti, "irq_sti": rt.timer.irq_sti,
        "next_mti": rt.timer.next_mti, "next_sti": rt.timer.next_sti,
        "timer_enabled": rt.timer.enabled,
        "power": match st.power_state() { PowerState::Running => "running", PowerState::Halted => "halted", PowerState::Off => "off" },
        "cycles": rt.cycle_count(), "instrs": rt.instruction_count(),
        "pending": rt.timer.irq_pending, "source": rt.timer.irq_source,
        "opcode": rt.memory.load(pc, 8).unwrap_or(0),
        "kil": rt.memory.read_internal_byte_silent(0xF2).unwrap_or(0),
        "fifo": rt.keyboard.as_ref().map(|k| k.fifo_snapshot()).unwrap_or_default(),
    });
    let opc = rt.memory.load(pc, 8).unwrap_or(0);
    o["op_eff"] = if (0x21..=0x27).contains(&opc) || (0x30..=0x37).contains(&opc) {
        json!(rt.memory.load(pc.wrapping_add(1), 8).unwrap_or(0))
    } else {
        json!(opc)
    };
    if lcd {
        if let Some(l) = rt.lcd.as_ref() {
            let (meta, payload) = l.export_snapshot();
            o["lcd_meta"] = meta;
            o["lcd_crc"] = json!(crc32(&payload));
        }
    }
    o
}

fn configure(rt: &mut CoreRuntime, v: &Value) {
    if let Some(code) = v.get("code").and_then(|c| c.as_array()) {
        for seg in code {
            if let (Some(a), Some(h)) = (seg.get(0).and_then(|x| x.as_u64()), seg.get(1).and_then(|x| x.as_str())) {
                rt.load_rom(&hexbytes(h), a as usize);
            }
        }
    }
    if v.get("rom_ro").and_then(|b| b.as_bool()).unwrap_or(false) {
        rt.memory.set_readonly_ranges(vec![(0xC0000, 0xFFFFF)]);
    }
    // optional RAM overlays [[start,size]..] and a memory card of `card` bytes (stacks placed on their edges)
    if let Some(ovs) = v.get("overlays").and_then(|o| o.as_array()) {
        for (i, ov) in ovs.iter().enumerate() {
            if let (Some(a), Some(n)) = (ov.get(0).and_then(|x| x.as_u64()), ov.get(1).and_then(|x| x.as_u64())) {
                rt.add_ram_overlay(a as u32, n as usize, &format!("verif_ov{}", i));
            }
        }
    }
    if let Some(n) = v.get("card").and_then(|x| x.as_u64()) {
        let data: Vec<u8> = (0..n as usize).map(|i| (i * 7 + 3) as u8).collect();
        let _ = rt.load_memory_card(&data);
    }
    if v.get("bare").and_then(|b| b.as_bool()).unwrap_or(false) {
        return; // fresh runtime with only the ROM inserted: everything else must come from the snapshot
    }
    if let Some(t) = v.get("timer") {
        let en = t.get("enabled").and_then(|b| b.as_bool()).unwrap_or(false);
        let mti = t.get("mti").and_then(|x| x.as_i64()).unwrap_or(0) as i32;
        let sti = t.get("sti").and_then(|x| x.as_i64()).unwrap_or(0) as i32;
        *rt.timer = TimerContext::new(en, mti, sti);
        if let Some(k) = t.get("kb_irq").and_then(|b| b.as_bool()) {
            rt.timer.set_keyboard_irq_enabled(k);
        }
    }
    if let Some(m) = v.get("imem").and_then(|m| m.as_object()) {
        for (k, val) in m {
            if let (Ok(off), Some(b)) = (k.parse::<u32>(), val.as_u64()) {
                rt.memory.write_internal_byte(off, b as u8);
            }
        }
    }
    if let Some(r) = v.get("regs").and_then(|m| m.as_object()) {
        for (k, val) in r {
            if let Some(x) = val.as_u64() {
                rt.set_reg(k, x as u32);
            }
        }
    }
}

/// Apply one script op; returns Some(error) when the run must stop (panic inside step).
pub fn apply(rt: &mut CoreRuntime, op: &Value, lcd: bool, full: bool, out: &mut Vec<Value>) -> Option<String> {
    let name = op.get(0).and_then(|n| n.as_str()).unwrap_or("");
    let a1 = op.get(1).and_then(|n| n.as_u64()).unwrap_or(0);
    let a2 = op.get(2).and_then(|n| n.as_u64()).unwrap_or(0);
    match name {
        "step" | "stepn" => {
            let n = if name == "step" { 1 } else { a1 as usize };
            let r = catch_unwind(AssertUnwindSafe(|| rt.step(n)));
            let mut o = obs(rt, lcd);
            if full {
                obs_full(rt, &mut o);
            }
            match r {
                Ok(Ok(())) => {}
                Ok(Err(e)) => o["step_error"] = json!(e.to_string()),
                Err(_) => {
                    o["panic"] = json!(crate::last_panic());
                    out.push(o);
                    return Some("panic".into());
                }
            }
            out.push(o);
        }
        "press" => {
            if let Some(kb) = rt.keyboard.as_mut() {
                kb.press_matrix_code(a1 as u8, &mut rt.memory);
            }
            out.push(json!({}));
        }
        "release" => {
            if let Some(kb) = rt.keyboard.as_mut() {
                kb.release_matrix_code(a1 as u8, &mut rt.memory);
            }
            out.push(json!({}));
        }
        "on" => {
            if a1 != 0 {
                rt.press_on_key()
            } else {
                rt.release_on_key()
            }
            out.push(json!({}));
        }
        "wimem" => {
            let _ = rt.memory.store(IMEM + a1 as u32, 8, a2 as u32);
            out.push(json!({}));
        }
        "treset" => {
            // the host re-arms the timers at the current cycle (public TimerContext::reset), at any point of a run
            let c = rt.cycle_count();
            rt.timer.reset(c);
            if a1 != 0 {
                // ... and restarts the program: PC and S re-initialised (IMR/ISR follow as wimem ops)
                rt.set_reg("PC", a1 as u32);
                rt.set_reg("S", a2 as u32);
            }
            out.push(json!({}));
        }
        "imem_or" => {
            let cur = rt.memory.read_internal_byte_silent(a1 as u32).unwrap_or(0) as u32;
            let _ = rt.memory.store(IMEM + a1 as u32, 8, cur | a2 as u32);
            out.push(json!({}));
        }
        "imem_and" => {
            let cur = rt.memory.read_internal_byte_silent(a1 as u32).unwrap_or(0) as u32;
            let _ = rt.memory.store(IMEM + a1 as u32, 8, cur & a2 as u32);
            out.push(json!({}));
        }
        "wext" => {
            let _ = rt.memory.store(a1 as u32, 8, a2 as u32);
            out.push(json!({}));
        }
        "obs" => {
            let mut o = obs(rt, lcd);
            if full {
                obs_full(rt, &mut o);
            }
            out.push(o)
        }
        "load_into" => {
            let p = op.get(1).and_then(|n| n.as_str()).unwrap_or("/dev/null");
            let r = catch_unwind(AssertUnwindSafe(|| rt.load_snapshot(std::path::Path::new(p))));
            match r {
                Ok(Ok(())) => out.push(json!({"loaded": p})),
                Ok(Err(e)) => out.push(json!({"load_error": e.to_string()})),
                Err(_) => out.push(json!({"load_error": format!("panic: {}", crate::last_panic())})),
            }
        }
        "ld" => out.push(json!({"v": rt.memory.load(a1 as u32, a2 as u8)})),
        "save" => {
            let p = op.get(1).and_then(|n| n.as_str()).unwrap_or("/dev/null");
            match rt.save_snapshot(std::path::Path::new(p)) {
                Ok(()) => out.push(json!({"saved": p})),
                Err(e) => out.push(json!({"save_error": e.to_string()})),
            }
        }
        "load" => {
            let p = op.get(1).and_then(|n| n.as_str()).unwrap_or("/dev/null");
            let mut fresh = CoreRuntime::new();
            match fresh.load_snapshot(std::path::Path::new(p)) {
                Ok(()) => {
                    *rt = fresh;
                    out.push(json!({"loaded": p}));
                }
                Err(e) => out.push(json!({"load_error": e.to_string()})),
            }
        }
        _ => out.push(json!({"bad_op": name})),
    }
    None
}

/// A runtime prepared from the scenario fields of `v` plus its optional "pre" ops (outputs discarded).
pub fn build(v: &Value) -> CoreRuntime {
    let mut rt = CoreRuntime::new();
    configure(&mut rt, v);
    if let Some(pre) = v.get("pre").and_then(|s| s.as_array()) {
        let mut sink = Vec::new();
        for op in pre {
            if apply(&mut rt, op, false, false, &mut sink).is_some() {
                break;
            }
        }
    }
    rt
}

pub fn main() {
    crate::run_lines(|v| {
        let mut rt = CoreRuntime::new();
        configure(&mut rt, &v);
        let lcd = v.get("obs_lcd").and_then(|b| b.as_bool()).unwrap_or(false);
        let full = v.get("obs_full").and_then(|b| b.as_bool()).unwrap_or(false);
        let mut out: Vec<Value> = Vec::new();
        let mut error: Option<String> = None;
        if let Some(script) = v.get("script").and_then(|s| s.as_array()) {
            for op in script {
                if let Some(e) = apply(&mut rt, op, lcd, full, &mut out) {
                    error = Some(e);
                    break;
                }
            }
        }
        json!({"id": v.get("id").cloned().unwrap_or(Value::Null), "out": out, "error": error})
    });
}
