//! regs: named register writes on the real LlamaState / CoreRuntime + snapshot pack/unpack round trips.
//! in : {id, seq:[[name,value],...], roundtrip_every:k, unpack_blob?:hex}
//! out: {id, after:[[14 values]...] (LlamaState), rt_after:[[...]] (CoreRuntime named API),
//!       roundtrips:[{at, blob, fresh:[14 values]}], unpacked?:{...}}
use sc62015_core::llama::opcodes::RegName;
use sc62015_core::llama::state::LlamaState;
use sc62015_core::snapshot::{pack_registers, unpack_registers};
use sc62015_core::{apply_registers, collect_registers, CoreRuntime};
use serde_json::{json, Value};

pub const NAMES: [&str; 14] = ["A", "B", "BA", "IL", "IH", "I", "X", "Y", "U", "S", "PC", "F", "FC", "FZ"];

pub fn reg(name: &str) -> Option<RegName> {
    Some(match name {
        "A" => RegName::A, "B" => RegName::B, "BA" => RegName::BA, "IL" => RegName::IL, "IH" => RegName::IH,
        "I" => RegName::I, "X" => RegName::X, "Y" => RegName::Y, "U" => RegName::U, "S" => RegName::S,
        "PC" => RegName::PC, "F" => RegName::F, "FC" => RegName::FC, "FZ" => RegName::FZ, "IMR" => RegName::IMR,
        _ => {
            if let Some(n) = name.strip_prefix("TEMP") {
                return n.parse::<u8>().ok().map(RegName::Temp);
            }
            return None;
        }
    })
}

fn all(state: &LlamaState) -> Vec<u32> {
    NAMES.iter().map(|n| state.get_reg(reg(n).unwrap())).collect()
}

fn hex(b: &[u8]) -> String {
    b.iter().map(|x| format!("{x:02x}")).collect()
}

pub fn main() {
    crate::run_lines(|v| {
        let mut state = LlamaState::new();
        let mut rt = CoreRuntime::new();
        let mut rt_flag = CoreRuntime::new();   // same writes, but FC/FZ go through the by-name flag API set_flag/get_flag
        let mut flag_after = Vec::new();
        let mut state_acc = LlamaState::new();   // same writes, but PC goes through the dedicated accessors set_pc()/pc()
        let mut acc_after = Vec::new();
        let k = v.get("roundtrip_every").and_then(|x| x.as_u64()).unwrap_or(0) as usize;
        let mut after = Vec::new();
        let mut rt_after = Vec::new();
        let mut rts = Vec::new();
        if let Some(seq) = v.get("seq").and_then(|s| s.as_array()) {
            for (i, w) in seq.iter().enumerate() {
                let name = w.get(0).and_then(|n| n.as_str()).unwrap_or("");
                let val = w.get(1).and_then(|n| n.as_u64()).unwrap_or(0) as u32;
                if let Some(r) = reg(name) {
                    state.set_reg(r, val);
                }
                rt.set_reg(name, val);
                if name == "FC" || name == "FZ" {
                    rt_flag.set_flag(name, val as u8);
                } else {
                    rt_flag.set_reg(name, val);
                }
                flag_after.push(json!({"regs": NAMES.iter().map(|n| rt_flag.get_reg(n)).collect::<Vec<u32>>(),
                                       "fc": rt_flag.get_flag("FC"), "fz": rt_flag.get_flag("FZ")}));
                if name == "PC" {
                    state_acc.set_pc(val);
                } else if let Some(r) = reg(name) {
                    state_acc.set_reg(r, val);
                }
                let mut acc = all(&state_acc);
                acc[10] = state_acc.pc();
                acc_after.push(json!({"regs": acc, "pc_by_name": state_acc.get_reg(RegName::PC)}));
                after.push(all(&state));
                rt_after.push(NAMES.iter().map(|n| rt.get_reg(n)).collect::<Vec<u32>>());
                if k > 0 && (i + 1) % k == 0 {
                    // all fourteen scratch registers hold distinct non-zero values at the snapshot point
                    for t in 0..14u8 {
                        state.set_reg(RegName::Temp(t), (((i as u32 + 1) * 0x1111) ^ ((t as u32 + 1) * 0x010203)) & 0xFFFFFF | 1);
                    }
                    let regs = collect_registers(&state);
                    let blob = pack_registers(&regs);
                    let mut fresh = LlamaState::new();
                    match unpack_registers(&blob) {
                        Ok(mut un) => {
                            for (kk, vv) in regs.iter() {
                                if kk.starts_with("TEMP") {
                                    un.insert(kk.clone(), *vv);
                                }
                            }
                            apply_registers(&mut fresh, &un);
                            let ts: Vec<u32> = (0..14u8).map(|t| state.get_reg(RegName::Temp(t))).collect();
                            let tf: Vec<u32> = (0..14u8).map(|t| fresh.get_reg(RegName::Temp(t))).collect();
                            rts.push(json!({"at": i, "blob": hex(&blob), "fresh": all(&fresh), "temps_state": ts, "temps_fresh": tf}));
                        }
                        Err(e) => rts.push(json!({"at": i, "error": e.to_string()})),
                    }
                }
            }
        }
        let mut out = json!({"id": v.get("id").cloned().unwrap_or(Value::Null), "after": after,
                             "rt_after": rt_after, "flag_after": flag_after, "acc_after": acc_after, "roundtrips": rts});
        if let Some(dir) = v.get("rt_snapshot_dir").and_then(|b| b.as_str()) {
            // register snapshots through the runtime's own files, two generations: A (scratch registers set) -> file -> B;
            // B changes some scratch registers back to 0 and others to new values -> file -> C. C must read what B read.
            let seed = v.get("id").and_then(|x| x.as_u64()).unwrap_or(0) as u32;
            let p1 = std::path::Path::new(dir).join(format!("gen1-{seed}.snap"));
            let p2 = std::path::Path::new(dir).join(format!("gen2-{seed}.snap"));
            let mut a = CoreRuntime::new();
            for t in 0..14u8 {
                a.state.set_reg(RegName::Temp(t), ((seed + 1) * 0x1357 ^ (t as u32 + 1) * 0x020305) & 0xFFFFFF | 1);
            }
            a.state.set_reg(RegName::X, 0x12345);
            let mut gen = json!({});
            let mut b = CoreRuntime::new();
            if let Err(e) = a.save_snapshot(&p1).and_then(|_| b.load_snapshot(&p1)) {
                gen["error"] = json!(e.to_string());
            } else {
                for t in 0..14u8 {
                    if (t as u32 + seed) % 3 == 0 {
                        b.state.set_reg(RegName::Temp(t), 0);
                    } else if (t as u32 + seed) % 3 == 1 {
                        b.state.set_reg(RegName::Temp(t), (t as u32 + 7) * 0x1111);
                    }
                }
                b.state.set_reg(RegName::Y, 0x54321);
                let mut c = CoreRuntime::new();
                if let Err(e) = b.save_snapshot(&p2).and_then(|_| c.load_snapshot(&p2)) {
                    gen["error"] = json!(e.to_string());
                } else {
                    gen["a"] = json!((0..14u8).map(|t| a.state.get_reg(RegName::Temp(t))).collect::<Vec<u32>>());
                    gen["b"] = json!((0..14u8).map(|t| b.state.get_reg(RegName::Temp(t))).collect::<Vec<u32>>());
                    gen["c"] = json!((0..14u8).map(|t| c.state.get_reg(RegName::Temp(t))).collect::<Vec<u32>>());
                    gen["b_regs"] = json!(all(&b.state));
                    gen["c_regs"] = json!(all(&c.state));
                }
            }
            let _ = std::fs::remove_file(&p1);
            let _ = std::fs::remove_file(&p2);
            out["generations"] = gen;
        }
        if let Some(h) = v.get("unpack_blob").and_then(|b| b.as_str()) {
            let bytes: Vec<u8> = (0..h.len() / 2).filter_map(|i| u8::from_str_radix(&h[2 * i..2 * i + 2], 16).ok()).collect();
            match unpack_registers(&bytes) {
                Ok(m) => {
                    let mut fresh = LlamaState::new();
                    apply_registers(&mut fresh, &m);
                    out["unpacked"] = json!(m);
                    out["unpacked_applied"] = json!(all(&fresh));
                }
                Err(e) => out["unpack_error"] = json!(e.to_string()),
            }
        }
        out
    });
}
