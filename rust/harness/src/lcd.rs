//! lcd: drive the real LcdController through its address window.
//! in : {id, ops:[["w",addr,val]|["r",addr]|["flipmap",start_line]]}
//! out: {id, out:[ {rd, chips:[[on,start,page,y]x2], crc, px_changed:[[row,col]..]} | {flipmap:[..]} ]}
use sc62015_core::lcd::LcdController;
use serde_json::{json, Value};

fn crc32(data: &[u8]) -> u32 {
    let mut crc = 0xFFFF_FFFFu32;
    for &b in data {
        crc ^= b as u32;
        for _ in 0..8 {
            crc = if crc & 1 != 0 { (crc >> 1) ^ 0xEDB8_8320 } else { crc >> 1 };
        }
    }
    !crc
}

fn state(l: &LcdController) -> (Value, u32, Vec<u8>) {
    let (meta, payload) = l.export_snapshot();
    let chips: Vec<Value> = meta["chips"]
        .as_array()
        .map(|a| a.iter().map(|c| json!([c["on"], c["start_line"], c["page"], c["y_address"]])).collect())
        .unwrap_or_default();
    (json!(chips), crc32(&payload), payload)
}

fn diff(a: &[[u8; 240]; 32], b: &[[u8; 240]; 32]) -> Vec<Value> {
    let mut out = Vec::new();
    for r in 0..32 {
        for c in 0..240 {
            if a[r][c] != b[r][c] {
                out.push(json!([r, c]));
            }
        }
    }
    out
}

pub fn main() {
    crate::run_lines(|v| {
        let mut l = LcdController::new();
        let mut out = Vec::new();
        let want_px = v.get("pixels").and_then(|b| b.as_bool()).unwrap_or(true);
        if let Some(ops) = v.get("ops").and_then(|o| o.as_array()) {
            for op in ops {
                let name = op.get(0).and_then(|n| n.as_str()).unwrap_or("");
                let addr = op.get(1).and_then(|n| n.as_u64()).unwrap_or(0) as u32;
                match name {
                    "w" => {
                        let val = op.get(2).and_then(|n| n.as_u64()).unwrap_or(0) as u8;
                        let before = if want_px { Some(l.display_buffer()) } else { None };
                        l.write(addr, val);
                        let (chips, crc, _) = state(&l);
                        let px = before.map(|b| diff(&b, &l.display_buffer())).unwrap_or_default();
                        out.push(json!({"chips": chips, "crc": crc, "px": px}));
                    }
                    "r" => {
                        let rd = l.read(addr);
                        let (chips, crc, _) = state(&l);
                        out.push(json!({"rd": rd, "chips": chips, "crc": crc}));
                    }
                    "reset" => {
                        l.reset();
                        let (chips, crc, _) = state(&l);
                        out.push(json!({"chips": chips, "crc": crc}));
                    }
                    "vram" => {
                        let (_, _, payload) = state(&l);
                        out.push(json!({"vram": payload}));
                    }
                    "flipmap" => {
                        // both chips on, given start line; flip every VRAM bit once through the protocol
                        let sl = (addr & 0x3F) as u8;
                        l.write(0x2000, 0x01); // both chips: display on
                        l.write(0x2000, 0xC0 | sl); // both chips: start line
                        let base = l.display_buffer();
                        let mut map = Vec::new();
                        for chip in 0..2u32 {
                            let sel = if chip == 0 { 0x8 } else { 0x4 }; // low nibble: 10=left(chip0) 01=right(chip1)
                            for page in 0..8u32 {
                                for col in 0..64u32 {
                                    for bit in 0..8u32 {
                                        l.write(0x2000 | sel, (0x80 | page) as u8);
                                        l.write(0x2000 | sel, (0x40 | col) as u8);
                                        l.write(0x2000 | sel | 2, (1u32 << bit) as u8);
                                        let d = diff(&base, &l.display_buffer());
                                        map.push(json!([chip, page, col, bit, d]));
                                        l.write(0x2000 | sel, (0x40 | col) as u8);
                                        l.write(0x2000 | sel | 2, 0);
                                    }
                                }
                            }
                        }
                        out.push(json!({"flipmap": map}));
                    }
                    _ => out.push(json!({"bad": name})),
                }
            }
        }
        json!({"id": v.get("id").cloned().unwrap_or(Value::Null), "out": out})
    });
}
