//! kbd: drive the real KeyboardMatrix.
//! in : {id, cfg:{press,release,delay,interval,active_high}, ops:[["press",c]|["release",c]|["kol",v]|["koh",v]|
//!       ["tick",count_irq]|["kil"]|["inject",c,release,kb_irq]|["consume"]|["to_mem",kb_irq]|["clear_isr"]]}
//! out: {id, out:[{rd?, ev?, kil_latch, fifo, isr, deb:[codes], pressed:[codes]}]}
use sc62015_core::keyboard::KeyboardMatrix;
use sc62015_core::memory::MemoryImage;
use serde_json::{json, Value};

fn observe(kb: &KeyboardMatrix, mem: &MemoryImage) -> Value {
    let snap = kb.snapshot_state();
    let mut deb: Vec<u8> = Vec::new();
    let mut pressed: Vec<u8> = Vec::new();
    for (name, st) in snap.key_states.iter() {
        if let Some(code) = KeyboardMatrix::matrix_code_for_key_name(name) {
            if st.debounced {
                deb.push(code);
            }
            if st.pressed {
                pressed.push(code);
            }
        }
    }
    deb.sort();
    pressed.sort();
    let mut ticks = serde_json::Map::new();
    for (name, st) in snap.key_states.iter() {
        if st.pressed || st.debounced {
            ticks.insert(name.clone(), json!([st.pressed, st.debounced, st.press_ticks, st.release_ticks, st.repeat_ticks]));
        }
    }
    json!({"ticks": ticks, "kil_latch": snap.kil_latch, "fifo": kb.fifo_snapshot(), "isr": mem.read_internal_byte(0xFC).unwrap_or(0),
           "deb": deb, "pressed": pressed, "head": snap.head, "tail": snap.tail})
}

pub fn main() {
    crate::run_lines(|v| {
        let mut kb = KeyboardMatrix::new();
        let mut mem = MemoryImage::new();
        if let Some(cfg) = v.get("cfg") {
            let mut snap = kb.snapshot_state();
            if let Some(x) = cfg.get("press").and_then(|x| x.as_u64()) { snap.press_threshold = x as u8; }
            if let Some(x) = cfg.get("release").and_then(|x| x.as_u64()) { snap.release_threshold = x as u8; }
            if let Some(x) = cfg.get("delay").and_then(|x| x.as_u64()) { snap.repeat_delay = x as u8; }
            if let Some(x) = cfg.get("interval").and_then(|x| x.as_u64()) { snap.repeat_interval = x as u8; }
            let via_setter = cfg.get("via_setter").and_then(|x| x.as_bool()).unwrap_or(false);
            if !via_setter {
                if let Some(x) = cfg.get("active_high").and_then(|x| x.as_bool()) { snap.columns_active_high = x; }
            }
            kb.load_snapshot_state(&snap);
            if cfg.get("no_repeat").and_then(|x| x.as_bool()).unwrap_or(false) {
                kb.set_repeat_enabled(false);
            }
            if via_setter {
                // polarity chosen through the public setter, with no KOL/KOH write afterwards
                if let Some(x) = cfg.get("active_high").and_then(|x| x.as_bool()) { kb.set_columns_active_high(x); }
            }
        }
        let strobe_via_snapshot = v.get("cfg").and_then(|c| c.get("strobe_via_snapshot")).and_then(|x| x.as_bool()).unwrap_or(false);
        let mut out = Vec::new();
        if let Some(ops) = v.get("ops").and_then(|o| o.as_array()) {
            for (op_index, op) in ops.iter().enumerate() {
                let name = op.get(0).and_then(|n| n.as_str()).unwrap_or("");
                let a1 = op.get(1).and_then(|n| n.as_u64()).unwrap_or(0);
                let b1 = op.get(1).and_then(|n| n.as_bool()).unwrap_or(a1 != 0);
                let mut extra = json!({});
                match name {
                    "press" => kb.press_matrix_code(a1 as u8, &mut mem),
                    "release" => kb.release_matrix_code(a1 as u8, &mut mem),
                    "kol" | "koh" if strobe_via_snapshot && op_index < 2 => {
                        // the initial strobe state arrives INSIDE a snapshot that is loaded into a fresh matrix (whose own
                        // polarity is the default): no KOL/KOH write follows the load
                        let mut snap = kb.snapshot_state();
                        if name == "kol" { snap.kol = a1 as u8; } else { snap.koh = (a1 as u8) & 0x0F; }
                        kb = KeyboardMatrix::new();
                        kb.load_snapshot_state(&snap);
                    }
                    "kol" => { kb.handle_write(0xF0, a1 as u8, &mut mem); }
                    "koh" => { kb.handle_write(0xF1, a1 as u8, &mut mem); }
                    "tick" => { extra = json!({"ev": kb.scan_tick(&mut mem, b1)}); }
                    "kil" => { extra = json!({"rd": kb.handle_read(0xF2, &mut mem)}); }
                    "inject" => {
                        let rel = op.get(2).and_then(|n| n.as_bool()).unwrap_or(false);
                        let irq = op.get(3).and_then(|n| n.as_bool()).unwrap_or(true);
                        extra = json!({"ev": kb.inject_matrix_event(a1 as u8, rel, &mut mem, irq)});
                    }
                    "consume" => kb.consume_pending_events(),
                    "to_mem" => kb.write_fifo_to_memory(&mut mem, b1),
                    "clear_isr" => mem.write_internal_byte(0xFC, 0),
                    _ => { extra = json!({"bad": name}); }
                }
                let mut o = observe(&kb, &mem);
                if let (Some(om), Some(em)) = (o.as_object_mut(), extra.as_object()) {
                    for (k, val) in em { om.insert(k.clone(), val.clone()); }
                }
                out.push(o);
            }
        }
        json!({"id": v.get("id").cloned().unwrap_or(Value::Null), "out": out})
    });
}
