//! cpubus: the CPU-facing RuntimeBus (private to CoreRuntime::step) exercised by tiny programs:
//! MV [lmn],A / MV A,[lmn]; MVW [lmn],(n) / MVW (m),[lmn]; MVP likewise. Observed through memory.load.
//! in : {addr, val, n}   out: {ok, detail}
use sc62015_core::CoreRuntime;
use serde_json::{json, Value};

/// Internal-memory wide stores through the CPU bus: `MVW (n),imm16` / `MVP (n),imm20` on one runtime against the same
/// bytes stored one by one (`MV (n+i),imm8`) on a second, fresh runtime: every targeted byte, and the keyboard strobe
/// registers, must end up the same (a wide access is the composition of its byte accesses).
fn imem_mode(v: &Value) -> Value {
    let n = v.get("imem_n").and_then(|x| x.as_u64()).unwrap_or(0x20) as u8;
    let val = v.get("val").and_then(|x| x.as_u64()).unwrap_or(0) as u32;
    let bits = v.get("bits").and_then(|x| x.as_u64()).unwrap_or(16) as u32;
    let nb = (bits / 8) as u8;
    let b = |i: u32| ((val >> (8 * i)) & if i == 2 { 0x0F } else { 0xFF }) as u8;
    let wide: Vec<u8> = if nb == 2 { vec![0x32, 0xCD, n, b(0), b(1)] } else { vec![0x32, 0xDC, n, b(0), b(1), b(2)] };
    let mut bytewise: Vec<u8> = Vec::new();
    for i in 0..nb {
        bytewise.extend_from_slice(&[0x32, 0xCC, n.wrapping_add(i), b(i as u32)]);
    }
    let run = |code: &Vec<u8>, steps: usize| -> Result<Value, String> {
        let mut rt = CoreRuntime::new();
        rt.load_rom(code, 0x1000);
        rt.set_reg("PC", 0x1000);
        rt.set_reg("S", 0x30000);
        rt.timer.enabled = false;
        rt.step(steps).map_err(|e| e.to_string())?;
        let mut o = json!({});
        crate::rt::obs_full(&rt, &mut o);
        let im = o["imem"].as_str().unwrap_or("").to_string();
        let mut got = Vec::new();
        for i in 0..nb {
            let off = n.wrapping_add(i) as usize;
            got.push(u8::from_str_radix(&im[off * 2..off * 2 + 2], 16).unwrap_or(0));
        }
        Ok(json!({"bytes": got, "kol": o["kol"], "koh": o["koh"], "kil_latch": o["kil_latch"]}))
    };
    let a = run(&wide, 1);
    let c = run(&bytewise, nb as usize);
    match (a, c) {
        (Ok(a), Ok(c)) => json!({"ok": a == c, "detail": [{"clause": "wide internal store vs byte stores", "wide": a, "bytewise": c}],
                                 "imem_n": n, "bits": bits}),
        (a, c) => json!({"ok": false, "error": format!("{:?} / {:?}", a.err(), c.err())}),
    }
}

/// The machine set up by the crate's own PC-E500 loaders (ROM window / full system image of `len` bytes): the memory
/// map they install must keep ROM, the vectors and the no-RAM window unchanged by stores of any width - through
/// MemoryImage::store and through the CPU bus - while main RAM stays writable.
fn loader_mode(v: &Value) -> Value {
    use sc62015_core::pce500::{load_pce500_rom_window, load_pce500_system_image};
    let which = v.get("loader").and_then(|x| x.as_str()).unwrap_or("window");
    let len = v.get("len").and_then(|x| x.as_u64()).unwrap_or(0x40000) as usize;
    let image: Vec<u8> = (0..len).map(|i| ((i * 13 + 5) ^ (i >> 8)) as u8).collect();
    let mut rt = CoreRuntime::new();
    let r = if which == "image" { load_pce500_system_image(&mut rt, &image) } else { load_pce500_rom_window(&mut rt, &image) };
    if let Err(e) = r {
        return json!({"ok": false, "error": e.to_string()});
    }
    let mut changed = Vec::new();
    let probes: [u32; 9] = [0x00100, 0x20000, 0x3FFFE, 0xC0000, 0xD0000, 0xE1234, 0xFFFFA, 0xFFFFD, 0xFFFFF];
    for (k, a) in probes.iter().enumerate() {
        for bits in [8u8, 16, 24] {
            let span = (bits / 8) as u32;
            let before: Vec<u32> = (0..span).map(|i| rt.memory.load((*a + i) & 0xFFFFF, 8).unwrap_or(0xFFFF)).collect();
            let val = 0xA5_5A_C3u32 ^ ((k as u32) << 4) ^ !before[0];
            let _ = rt.memory.store(*a, bits, val & ((1u64 << bits) - 1) as u32);
            let after: Vec<u32> = (0..span).map(|i| rt.memory.load((*a + i) & 0xFFFFF, 8).unwrap_or(0xFFFF)).collect();
            if before != after && *a + span - 1 <= 0xFFFFF {
                changed.push(json!([a, bits, "store"]));
            }
        }
    }
    // CPU path: MV [lmn],A at a ROM address and at a RAM address
    let code: Vec<u8> = vec![0x08, 0x77, 0xA8, 0x00, 0x00, 0x0D, 0xA8, 0x00, 0x81, 0x0B];
    for (i, b) in code.iter().enumerate() {
        let _ = rt.memory.store(0xB8000 + i as u32, 8, *b as u32);
    }
    let rom_before = rt.memory.load(0xD0000, 8).unwrap_or(0xFFFF);
    rt.set_reg("PC", 0xB8000);
    rt.set_reg("S", 0xB9000);
    rt.timer.enabled = false;
    let stepped = rt.step(3).map_err(|e| e.to_string());
    let rom_after = rt.memory.load(0xD0000, 8).unwrap_or(0xFFFF);
    let ram_after = rt.memory.load(0xB8100, 8).unwrap_or(0xFFFF);
    if rom_before != rom_after {
        changed.push(json!([0xD0000, 8, "cpu"]));
    }
    json!({"ok": changed.is_empty() && ram_after == 0x77 && stepped.is_ok(), "changed": changed, "ram_after": ram_after,
           "step": stepped.err(), "loader": which, "len": len})
}

pub fn main() {
    crate::run_lines(|v| {
        if v.get("loader").is_some() {
            return loader_mode(&v);
        }
        if v.get("imem_n").is_some() {
            return imem_mode(&v);
        }
        if v.get("lcd_edge").is_some() {
            return lcd_edge_mode(&v);
        }
        let addr = v.get("addr").and_then(|x| x.as_u64()).unwrap_or(0x20000) as u32 & 0xFFFFF;
        let val = v.get("val").and_then(|x| x.as_u64()).unwrap_or(0) as u32;
        let n = v.get("n").and_then(|x| x.as_u64()).unwrap_or(0x20) as u8;
        let m = n.wrapping_add(0x10);
        let (a0, a1, a2) = ((addr & 0xFF) as u8, ((addr >> 8) & 0xFF) as u8, ((addr >> 16) & 0x0F) as u8);
        // program at 0x01000:
        //   MV A,v0 ; MV [addr],A ; MV A,0 ; MV A,[addr]          (8 bit)
        //   MVP (n),val(20) ; MVP [addr],(n) ; MVP (m),[addr]     (24 bit through IMEM, PRE 32 = direct)
        let mut code: Vec<u8> = vec![0x08, (val & 0xFF) as u8, 0xA8, a0, a1, a2, 0x08, 0x00, 0x88, a0, a1, a2];
        code.extend_from_slice(&[0x32, 0xDC, n, (val & 0xFF) as u8, ((val >> 8) & 0xFF) as u8, ((val >> 16) & 0x0F) as u8]);
        code.extend_from_slice(&[0x32, 0xDA, a0, a1, a2, n]);
        code.extend_from_slice(&[0x32, 0xD2, m, a0, a1, a2]);
        let mut rt = CoreRuntime::new();
        rt.load_rom(&code, 0x1000);
        rt.set_reg("PC", 0x1000);
        rt.set_reg("S", 0x30000);
        let mut detail = Vec::new();
        let mut ok = true;
        if let Err(e) = rt.step(4) {
            return json!({"ok": false, "error": e.to_string()});
        }
        let a = rt.get_reg("A");
        let byte = rt.memory.load(addr, 8).unwrap_or(0xFFFF);
        if a != (val & 0xFF) || byte != (val & 0xFF) {
            ok = false;
            detail.push(json!({"clause": "byte store/load through CPU bus", "A": a, "mem": byte, "want": val & 0xFF}));
        }
        if let Err(e) = rt.step(3) {
            return json!({"ok": false, "error": e.to_string()});
        }
        let want = val & 0x0FFFFF;
        let wide = rt.memory.load(addr, 24).unwrap_or(0xFFFF_FFFF);
        let bytes = (0..3).map(|i| rt.memory.load(addr + i, 8).unwrap_or(0) << (8 * i)).sum::<u32>();
        let back = (0..3).map(|i| (rt.memory.read_internal_byte(m as u32 + i).unwrap_or(0) as u32) << (8 * i)).sum::<u32>();
        if wide != want || bytes != want || back != want {
            ok = false;
            detail.push(json!({"clause": "24-bit store/load through CPU bus", "wide": wide, "bytes": bytes, "back": back, "want": want}));
        }
        json!({"ok": ok, "detail": detail, "addr": addr})
    });
}

/// A 16/24-bit CPU store that starts inside an LCD window (0x2000-0x2FFF / 0xA000-0xAFFF) and ends in the plain RAM behind
/// it (or starts in RAM just below the window): the bytes that fall OUTSIDE the window are ordinary RAM bytes and must hold
/// the corresponding bytes of the value (little-endian composition; what the LCD does with its own bytes is C15's business).
fn lcd_edge_mode(v: &Value) -> Value {
    let addr = v.get("lcd_edge").and_then(|x| x.as_u64()).unwrap_or(0x2FFF) as u32 & 0xFFFFF;
    let val = v.get("val").and_then(|x| x.as_u64()).unwrap_or(0) as u32;
    let bits = v.get("bits").and_then(|x| x.as_u64()).unwrap_or(24) as u32;
    let n: u8 = 0x40;
    let (a0, a1, a2) = ((addr & 0xFF) as u8, ((addr >> 8) & 0xFF) as u8, ((addr >> 16) & 0x0F) as u8);
    let b = |i: u32| ((val >> (8 * i)) & if i == 2 { 0x0F } else { 0xFF }) as u8;
    let mut code: Vec<u8> = Vec::new();
    if bits == 16 {
        code.extend_from_slice(&[0x32, 0xCD, n, b(0), b(1)]); // MVW (n),imm16
        code.extend_from_slice(&[0x32, 0xD9, a0, a1, a2, n]); // MVW [lmn],(n)
    } else {
        code.extend_from_slice(&[0x32, 0xDC, n, b(0), b(1), b(2)]); // MVP (n),imm20
        code.extend_from_slice(&[0x32, 0xDA, a0, a1, a2, n]); // MVP [lmn],(n)
    }
    let mut rt = CoreRuntime::new();
    rt.load_rom(&code, 0x1000);
    rt.set_reg("PC", 0x1000);
    rt.set_reg("S", 0x30000);
    rt.timer.enabled = false;
    if let Err(e) = rt.step(2) {
        return json!({"ok": false, "error": e.to_string()});
    }
    let in_lcd = |a: u32| (0x2000..=0x2FFF).contains(&a) || (0xA000..=0xAFFF).contains(&a);
    let mut detail = Vec::new();
    for i in 0..(bits / 8) {
        let a = addr + i;
        if in_lcd(a) {
            continue;
        }
        let got = rt.memory.load(a, 8).unwrap_or(0xFFFF);
        if got != b(i) as u32 {
            detail.push(json!({"clause": "wide CPU store across an LCD window edge: RAM byte outside the window", "addr": a, "got": got, "want": b(i)}));
        }
    }
    json!({"ok": detail.is_empty(), "detail": detail, "addr": addr, "bits": bits})
}

#[allow(dead_code)]
fn unused(_: Value) {}
