//! exec: run N instructions of the real LlamaExecutor on a flat bus.
//! in : {id, bytes, addr, regs{BA,I,X,Y,U,S,FC,FZ,FHI}, mem{addr:byte}, steps?, temps?{n:v}, junk?{...}, trace?}
//! out: {id, ok, steps:[{len, err?, panic?, regs, pc, f, power, writes:[[a,v]..]}], final_writes{a:v}}
use crate::flat::FlatBus;
use sc62015_core::llama::eval::{set_perf_instr_counter, LlamaBus, LlamaExecutor};
use sc62015_core::llama::opcodes::RegName;
use sc62015_core::llama::state::{LlamaState, PowerState};
use serde_json::{json, Value};
use std::panic::{catch_unwind, AssertUnwindSafe};

pub fn regs_json(state: &LlamaState) -> Value {
    json!({
        "BA": state.get_reg(RegName::BA), "I": state.get_reg(RegName::I),
        "X": state.get_reg(RegName::X), "Y": state.get_reg(RegName::Y),
        "U": state.get_reg(RegName::U), "S": state.get_reg(RegName::S),
    })
}

pub fn power_str(state: &LlamaState) -> &'static str {
    match state.power_state() {
        PowerState::Running => "running",
        PowerState::Halted => "halted",
        PowerState::Off => "off",
    }
}

pub fn load_case(v: &Value, bus: &mut FlatBus, state: &mut LlamaState) {
    if let Some(m) = v.get("mem").and_then(|m| m.as_object()) {
        for (k, b) in m {
            if let (Ok(a), Some(b)) = (k.parse::<u32>(), b.as_u64()) {
                bus.poke(a, b as u8);
            }
        }
    }
    let addr = v.get("addr").and_then(|a| a.as_u64()).unwrap_or(0) as u32;
    if let Some(hex) = v.get("bytes").and_then(|b| b.as_str()) {
        let bytes: Vec<u8> = (0..hex.len() / 2)
            .filter_map(|i| u8::from_str_radix(&hex[2 * i..2 * i + 2], 16).ok())
            .collect();
        for (i, b) in bytes.iter().enumerate() {
            bus.poke(addr.wrapping_add(i as u32), *b);
        }
    }
    if let Some(r) = v.get("regs") {
        let g = |n: &str| r.get(n).and_then(|x| x.as_u64()).unwrap_or(0) as u32;
        state.set_reg(RegName::BA, g("BA"));
        state.set_reg(RegName::I, g("I"));
        state.set_reg(RegName::X, g("X"));
        state.set_reg(RegName::Y, g("Y"));
        state.set_reg(RegName::U, g("U"));
        state.set_reg(RegName::S, g("S"));
        state.set_reg(RegName::F, (g("FHI") & 0xFC) | (g("FC") & 1) | ((g("FZ") & 1) << 1));
    }
    state.set_pc(addr);
}

pub fn one_step(exec: &mut LlamaExecutor, state: &mut LlamaState, bus: &mut FlatBus) -> Value {
    let pc = state.pc();
    let w0 = bus.writes.len();
    let before = crate::PANICS.load(std::sync::atomic::Ordering::SeqCst);
    let opcode = bus.peek(pc);
    let res = catch_unwind(AssertUnwindSafe(|| exec.execute(opcode, state, bus)));
    let mut o = json!({
        "regs": regs_json(state), "pc": state.pc(), "f": state.get_reg(RegName::F),
        "power": power_str(state),
        "writes": bus.writes[w0..].iter().map(|(a, b)| json!([a, b])).collect::<Vec<_>>(),
    });
    match res {
        Ok(Ok(len)) => {
            o["len"] = json!(len);
        }
        Ok(Err(e)) => {
            o["err"] = json!(e);
        }
        Err(_) => {
            let _ = before;
            o["panic"] = json!(crate::last_panic());
        }
    }
    o
}

pub fn main() {
    crate::run_lines(|v| {
        let mut bus = FlatBus::new();
        let mut state = LlamaState::new();
        // optional hidden-state poisoning BEFORE the architectural state is applied (C07)
        if let Some(t) = v.get("temps").and_then(|t| t.as_object()) {
            for (k, val) in t {
                if let (Ok(i), Some(x)) = (k.parse::<u8>(), val.as_u64()) {
                    state.set_reg(RegName::Temp(i), x as u32);
                }
            }
        }
        if let Some(j) = v.get("junk") {
            if let Some(pages) = j.get("call_pages").and_then(|p| p.as_array()) {
                for p in pages {
                    state.push_call_page(p.as_u64().unwrap_or(0) as u32);
                }
            }
            if let Some(frames) = j.get("call_frames").and_then(|p| p.as_array()) {
                for p in frames {
                    state.push_call_frame(p.as_u64().unwrap_or(0) as u32, 16);
                }
            }
            if let Some(d) = j.get("call_depth").and_then(|p| p.as_u64()) {
                state.set_call_depth(d as u32);
                state.set_call_sub_level(d as u32);
            }
            if let Some(c) = j.get("perf_counter").and_then(|p| p.as_u64()) {
                set_perf_instr_counter(c);
            }
        }
        let mut exec = LlamaExecutor::new();
        // optional history: earlier instructions executed on the same executor/state (C07)
        if let Some(h) = v.get("history").and_then(|h| h.as_array()) {
            for hv in h {
                let mut hb = FlatBus::new();
                hb.log = false;
                load_case(hv, &mut hb, &mut state);
                let n = hv.get("steps").and_then(|s| s.as_u64()).unwrap_or(1);
                for _ in 0..n {
                    let pc = state.pc();
                    let op = hb.peek(pc);
                    let _ = catch_unwind(AssertUnwindSafe(|| exec.execute(op, &mut state, &mut hb)));
                }
            }
            state.set_power_state(PowerState::Running);
            if v.get("fresh_executor").and_then(|b| b.as_bool()).unwrap_or(false) {
                exec = LlamaExecutor::new();
            }
        }
        load_case(&v, &mut bus, &mut state);
        let steps = v.get("steps").and_then(|s| s.as_u64()).unwrap_or(1);
        let split_every = v.get("split_every").and_then(|s| s.as_u64()).unwrap_or(0);
        let mut out_steps = Vec::new();
        for n in 0..steps {
            if split_every > 0 && n > 0 && n % split_every == 0 {
                // C07 split run: rebuild executor + state from ARCHITECTURAL registers only
                let mut fresh = LlamaState::new();
                for r in [RegName::BA, RegName::I, RegName::X, RegName::Y, RegName::U, RegName::S,
                          RegName::F, RegName::PC] {
                    fresh.set_reg(r, state.get_reg(r));
                }
                fresh.set_power_state(state.power_state());
                state = fresh;
                exec = LlamaExecutor::new();
            }
            let o = one_step(&mut exec, &mut state, &mut bus);
            let stop = o.get("err").is_some() || o.get("panic").is_some();
            out_steps.push(o);
            if stop || state.power_state() != PowerState::Running {
                break;
            }
        }
        let mut fin = serde_json::Map::new();
        for (a, _) in bus.writes.iter() {
            fin.insert(a.to_string(), json!(bus.peek(*a)));
        }
        let _ = bus.load(0, 8);
        json!({"id": v.get("id").cloned().unwrap_or(Value::Null), "steps": out_steps, "final": fin,
               "wait_cycles": bus.wait_cycles})
    });
}
