//! Flat sparse 24-bit memory with the same background fill and canonicalisation as vt/pyside.py.
use sc62015_core::llama::eval::LlamaBus;
use std::collections::HashMap;

pub fn fill_byte(addr: u32) -> u8 {
    let a = addr & 0xFF_FFFF;
    let mut x = a.wrapping_mul(0x9E37_79B1).wrapping_add(0x7F4A_7C15);
    x ^= x >> 15;
    x = x.wrapping_mul(0x85EB_CA6B);
    x ^= x >> 13;
    (x & 0xFF) as u8
}

#[derive(Default)]
pub struct FlatBus {
    pub data: HashMap<u32, u8>,
    pub writes: Vec<(u32, u8)>,
    pub reads: Vec<u32>,
    pub log: bool,
    pub wait_cycles: u64,
}

impl FlatBus {
    pub fn new() -> Self {
        Self { log: true, ..Default::default() }
    }
    pub fn peek(&self, addr: u32) -> u8 {
        let a = addr & 0xFF_FFFF;
        self.data.get(&a).copied().unwrap_or_else(|| fill_byte(a))
    }
    pub fn poke(&mut self, addr: u32, v: u8) {
        self.data.insert(addr & 0xFF_FFFF, v);
    }
}

impl LlamaBus for FlatBus {
    fn load(&mut self, addr: u32, bits: u8) -> u32 {
        let n = ((bits as u32) + 7) / 8;
        let mut v = 0u32;
        for i in 0..n {
            let a = addr.wrapping_add(i) & 0xFF_FFFF;
            if self.log {
                self.reads.push(a);
            }
            v |= (self.peek(a) as u32) << (8 * i);
        }
        v
    }
    fn store(&mut self, addr: u32, bits: u8, value: u32) {
        let n = ((bits as u32) + 7) / 8;
        for i in 0..n {
            let a = addr.wrapping_add(i) & 0xFF_FFFF;
            let b = ((value >> (8 * i)) & 0xFF) as u8;
            if self.log {
                self.writes.push((a, b));
            }
            self.data.insert(a, b);
        }
    }
    fn wait_cycles(&mut self, cycles: u32) {
        self.wait_cycles += cycles as u64;
    }
}
