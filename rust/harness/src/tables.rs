//! tables: dump the live tables/constants of the real crate (no input needed; prints one JSON object).
use sc62015_core::keyboard::KeyboardMatrix;
use sc62015_core::llama::opcodes::{RegName, OPCODES};
use sc62015_core::llama::state::mask_for;
use sc62015_core::{memory, pce500, register_width, snapshot};
use serde_json::json;

pub fn main() {
    crate::run_lines(|v| dump(&v));
}

fn dump(v: &serde_json::Value) -> serde_json::Value {
    let mut ops = Vec::new();
    for e in OPCODES.iter() {
        ops.push(json!({
            "opcode": e.opcode, "kind": format!("{:?}", e.kind), "name": e.name, "cond": e.cond,
            "ops_reversed": e.ops_reversed,
            "operands": e.operands.iter().map(|o| format!("{:?}", o)).collect::<Vec<_>>(),
        }));
    }
    let regs = ["A", "B", "BA", "IL", "IH", "I", "X", "Y", "U", "S", "PC", "F", "FC", "FZ", "IMR"];
    let rn = [RegName::A, RegName::B, RegName::BA, RegName::IL, RegName::IH, RegName::I, RegName::X, RegName::Y,
              RegName::U, RegName::S, RegName::PC, RegName::F, RegName::FC, RegName::FZ, RegName::IMR];
    let mut masks = serde_json::Map::new();
    let mut widths = serde_json::Map::new();
    for (n, r) in regs.iter().zip(rn.iter()) {
        masks.insert(n.to_string(), json!(mask_for(*r)));
        widths.insert(n.to_string(), json!(register_width(n)));
    }
    masks.insert("TEMP0".into(), json!(mask_for(RegName::Temp(0))));
    let consts = json!({
        "INTERNAL_MEMORY_START": memory::INTERNAL_MEMORY_START, "ADDRESS_MASK": memory::ADDRESS_MASK,
        "INTERNAL_ADDR_MASK": memory::INTERNAL_ADDR_MASK, "EXTERNAL_SPACE": memory::EXTERNAL_SPACE,
        "INTERNAL_SPACE": memory::INTERNAL_SPACE, "INTERNAL_RAM_START": memory::INTERNAL_RAM_START,
        "INTERNAL_RAM_SIZE": memory::INTERNAL_RAM_SIZE,
        "IMEM_KOL_OFFSET": memory::IMEM_KOL_OFFSET, "IMEM_KOH_OFFSET": memory::IMEM_KOH_OFFSET,
        "IMEM_KIL_OFFSET": memory::IMEM_KIL_OFFSET, "IMEM_BP_OFFSET": memory::IMEM_BP_OFFSET,
        "IMEM_PX_OFFSET": memory::IMEM_PX_OFFSET, "IMEM_PY_OFFSET": memory::IMEM_PY_OFFSET,
        "IMEM_UCR_OFFSET": memory::IMEM_UCR_OFFSET, "IMEM_USR_OFFSET": memory::IMEM_USR_OFFSET,
        "IMEM_RXD_OFFSET": memory::IMEM_RXD_OFFSET, "IMEM_TXD_OFFSET": memory::IMEM_TXD_OFFSET,
        "IMEM_IMR_OFFSET": memory::IMEM_IMR_OFFSET, "IMEM_ISR_OFFSET": memory::IMEM_ISR_OFFSET,
        "IMEM_SCR_OFFSET": memory::IMEM_SCR_OFFSET, "IMEM_LCC_OFFSET": memory::IMEM_LCC_OFFSET,
        "IMEM_SSR_OFFSET": memory::IMEM_SSR_OFFSET,
        "SYSTEM_IMAGE_LEN": pce500::SYSTEM_IMAGE_LEN, "ROM_WINDOW_START": pce500::ROM_WINDOW_START,
        "ROM_WINDOW_LEN": pce500::ROM_WINDOW_LEN, "ROM_RESET_VECTOR_ADDR": pce500::ROM_RESET_VECTOR_ADDR,
        "DEFAULT_CPU_HZ": pce500::DEFAULT_CPU_HZ, "DEFAULT_MTI_PERIOD": pce500::DEFAULT_MTI_PERIOD,
        "DEFAULT_STI_PERIOD": pce500::DEFAULT_STI_PERIOD,
        "SNAPSHOT_MAGIC": snapshot::SNAPSHOT_MAGIC, "SNAPSHOT_VERSION": snapshot::SNAPSHOT_VERSION,
        "SNAPSHOT_REGISTER_LAYOUT": snapshot::SNAPSHOT_REGISTER_LAYOUT.iter().map(|(n, w)| json!([n, w])).collect::<Vec<_>>(),
        "LCD_DISPLAY_ROWS": sc62015_core::lcd::LCD_DISPLAY_ROWS, "LCD_DISPLAY_COLS": sc62015_core::lcd::LCD_DISPLAY_COLS,
        "LCD_CHIP_ROWS": sc62015_core::lcd::LCD_CHIP_ROWS, "LCD_CHIP_COLS": sc62015_core::lcd::LCD_CHIP_COLS,
    });
    let mut keys = serde_json::Map::new();
    if let Some(names) = v.get("key_names").and_then(|k| k.as_array()) {
        for n in names {
            if let Some(s) = n.as_str() {
                keys.insert(s.to_string(), json!(KeyboardMatrix::matrix_code_for_key_name(s)));
            }
        }
    }
    json!({"opcodes": ops, "masks": masks, "widths": widths, "consts": consts, "keys": keys})
}
