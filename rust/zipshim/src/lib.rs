//! Minimal stand-in for the `zip` 0.6 API subset used by sc62015-core's snapshot code.
//! Writes deflated (method 8) or stored (method 0) entries with correct CRC-32 and a
//! central directory; reads stored and deflated entries. No zip64, no encryption.
use std::io::{self, Cursor, Read, Seek, SeekFrom, Write};

pub mod result {
    use std::fmt;
    use std::io;
    #[derive(Debug)]
    pub enum ZipError {
        Io(io::Error),
        InvalidArchive(&'static str),
        UnsupportedArchive(&'static str),
        FileNotFound,
    }
    pub type ZipResult<T> = Result<T, ZipError>;
    impl fmt::Display for ZipError {
        fn fmt(&self, f: &mut fmt::Formatter<'_>) -> fmt::Result {
            match self {
                ZipError::Io(e) => write!(f, "{e}"),
                ZipError::InvalidArchive(s) => write!(f, "invalid Zip archive: {s}"),
                ZipError::UnsupportedArchive(s) => write!(f, "unsupported Zip archive: {s}"),
                ZipError::FileNotFound => write!(f, "specified file not found in archive"),
            }
        }
    }
    impl std::error::Error for ZipError {}
    impl From<io::Error> for ZipError {
        fn from(e: io::Error) -> Self {
            ZipError::Io(e)
        }
    }
}
use result::{ZipError, ZipResult};

#[derive(Clone, Copy, Debug, PartialEq, Eq)]
pub enum CompressionMethod {
    Stored,
    Deflated,
}

fn crc32(data: &[u8]) -> u32 {
    let mut table = [0u32; 256];
    for i in 0..256u32 {
        let mut c = i;
        for _ in 0..8 {
            c = if c & 1 != 0 { 0xEDB8_8320 ^ (c >> 1) } else { c >> 1 };
        }
        table[i as usize] = c;
    }
    let mut crc = 0xFFFF_FFFFu32;
    for &b in data {
        crc = table[((crc ^ b as u32) & 0xFF) as usize] ^ (crc >> 8);
    }
    crc ^ 0xFFFF_FFFF
}

pub mod write {
    use super::*;
    #[derive(Clone, Copy, Debug)]
    pub struct FileOptions {
        pub(crate) method: CompressionMethod,
    }
    impl Default for FileOptions {
        fn default() -> Self {
            FileOptions { method: CompressionMethod::Deflated }
        }
    }
    impl FileOptions {
        pub fn compression_method(mut self, method: CompressionMethod) -> Self {
            self.method = method;
            self
        }
    }

    struct Entry {
        name: String,
        method: u16,
        crc: u32,
        csize: u32,
        usize_: u32,
        offset: u32,
    }

    pub struct ZipWriter<W: Write + Seek> {
        inner: Option<W>,
        entries: Vec<Entry>,
        current: Option<(String, CompressionMethod, Vec<u8>)>,
        pos: u64,
    }

    impl<W: Write + Seek> ZipWriter<W> {
        pub fn new(inner: W) -> Self {
            ZipWriter { inner: Some(inner), entries: Vec::new(), current: None, pos: 0 }
        }

        fn flush_current(&mut self) -> ZipResult<()> {
            let Some((name, method, data)) = self.current.take() else { return Ok(()) };
            let w = self.inner.as_mut().ok_or(ZipError::InvalidArchive("writer finished"))?;
            let crc = crc32(&data);
            let (mcode, payload) = match method {
                CompressionMethod::Stored => (0u16, data.clone()),
                CompressionMethod::Deflated => {
                    (8u16, miniz_oxide::deflate::compress_to_vec(&data, 1))
                }
            };
            let offset = self.pos as u32;
            let mut hdr = Vec::with_capacity(30 + name.len());
            hdr.extend_from_slice(&0x0403_4b50u32.to_le_bytes());
            hdr.extend_from_slice(&20u16.to_le_bytes());
            hdr.extend_from_slice(&0u16.to_le_bytes());
            hdr.extend_from_slice(&mcode.to_le_bytes());
            hdr.extend_from_slice(&0u16.to_le_bytes()); // time
            hdr.extend_from_slice(&0x0021u16.to_le_bytes()); // date 1980-01-01
            hdr.extend_from_slice(&crc.to_le_bytes());
            hdr.extend_from_slice(&(payload.len() as u32).to_le_bytes());
            hdr.extend_from_slice(&(data.len() as u32).to_le_bytes());
            hdr.extend_from_slice(&(name.len() as u16).to_le_bytes());
            hdr.extend_from_slice(&0u16.to_le_bytes());
            hdr.extend_from_slice(name.as_bytes());
            w.write_all(&hdr)?;
            w.write_all(&payload)?;
            self.pos += (hdr.len() + payload.len()) as u64;
            self.entries.push(Entry {
                name,
                method: mcode,
                crc,
                csize: payload.len() as u32,
                usize_: data.len() as u32,
                offset,
            });
            Ok(())
        }

        pub fn start_file<S: Into<String>>(&mut self, name: S, options: FileOptions) -> ZipResult<()> {
            self.flush_current()?;
            self.current = Some((name.into(), options.method, Vec::new()));
            Ok(())
        }

        pub fn finish(&mut self) -> ZipResult<W> {
            self.flush_current()?;
            let mut w = self.inner.take().ok_or(ZipError::InvalidArchive("writer finished"))?;
            let cd_start = self.pos;
            let mut cd = Vec::new();
            for e in &self.entries {
                cd.extend_from_slice(&0x0201_4b50u32.to_le_bytes());
                cd.extend_from_slice(&20u16.to_le_bytes());
                cd.extend_from_slice(&20u16.to_le_bytes());
                cd.extend_from_slice(&0u16.to_le_bytes());
                cd.extend_from_slice(&e.method.to_le_bytes());
                cd.extend_from_slice(&0u16.to_le_bytes());
                cd.extend_from_slice(&0x0021u16.to_le_bytes());
                cd.extend_from_slice(&e.crc.to_le_bytes());
                cd.extend_from_slice(&e.csize.to_le_bytes());
                cd.extend_from_slice(&e.usize_.to_le_bytes());
                cd.extend_from_slice(&(e.name.len() as u16).to_le_bytes());
                cd.extend_from_slice(&0u16.to_le_bytes());
                cd.extend_from_slice(&0u16.to_le_bytes());
                cd.extend_from_slice(&0u16.to_le_bytes());
                cd.extend_from_slice(&0u16.to_le_bytes());
                cd.extend_from_slice(&0u32.to_le_bytes());
                cd.extend_from_slice(&e.offset.to_le_bytes());
                cd.extend_from_slice(e.name.as_bytes());
            }
            w.write_all(&cd)?;
            let mut eocd = Vec::new();
            eocd.extend_from_slice(&0x0605_4b50u32.to_le_bytes());
            eocd.extend_from_slice(&0u16.to_le_bytes());
            eocd.extend_from_slice(&0u16.to_le_bytes());
            eocd.extend_from_slice(&(self.entries.len() as u16).to_le_bytes());
            eocd.extend_from_slice(&(self.entries.len() as u16).to_le_bytes());
            eocd.extend_from_slice(&(cd.len() as u32).to_le_bytes());
            eocd.extend_from_slice(&(cd_start as u32).to_le_bytes());
            eocd.extend_from_slice(&0u16.to_le_bytes());
            w.write_all(&eocd)?;
            w.flush()?;
            Ok(w)
        }
    }

    impl<W: Write + Seek> Write for ZipWriter<W> {
        fn write(&mut self, buf: &[u8]) -> io::Result<usize> {
            match self.current.as_mut() {
                Some((_, _, data)) => {
                    data.extend_from_slice(buf);
                    Ok(buf.len())
                }
                None => Err(io::Error::new(io::ErrorKind::Other, "No file has been started")),
            }
        }
        fn flush(&mut self) -> io::Result<()> {
            Ok(())
        }
    }
}

pub mod read {
    use super::*;
    struct Entry {
        name: String,
        method: u16,
        crc: u32,
        csize: usize,
        usize_: usize,
        offset: usize,
    }
    pub struct ZipArchive<R> {
        _reader: R,
        data: Vec<u8>,
        entries: Vec<Entry>,
    }
    pub struct ZipFile<'a> {
        cursor: Cursor<Vec<u8>>,
        _marker: std::marker::PhantomData<&'a ()>,
    }
    impl<'a> Read for ZipFile<'a> {
        fn read(&mut self, buf: &mut [u8]) -> io::Result<usize> {
            self.cursor.read(buf)
        }
    }
    fn u16_at(d: &[u8], o: usize) -> ZipResult<usize> {
        d.get(o..o + 2)
            .map(|s| u16::from_le_bytes([s[0], s[1]]) as usize)
            .ok_or(ZipError::InvalidArchive("truncated"))
    }
    fn u32_at(d: &[u8], o: usize) -> ZipResult<usize> {
        d.get(o..o + 4)
            .map(|s| u32::from_le_bytes([s[0], s[1], s[2], s[3]]) as usize)
            .ok_or(ZipError::InvalidArchive("truncated"))
    }
    impl<R: Read + Seek> ZipArchive<R> {
        pub fn new(mut reader: R) -> ZipResult<Self> {
            let mut data = Vec::new();
            reader.seek(SeekFrom::Start(0))?;
            reader.read_to_end(&mut data)?;
            if data.len() < 22 {
                return Err(ZipError::InvalidArchive("Invalid zip header"));
            }
            let mut eocd = None;
            let lo = data.len().saturating_sub(22 + 65535);
            let mut i = data.len() - 22;
            loop {
                if data[i..i + 4] == [0x50, 0x4b, 0x05, 0x06] {
                    eocd = Some(i);
                    break;
                }
                if i == lo {
                    break;
                }
                i -= 1;
            }
            let eocd = eocd.ok_or(ZipError::InvalidArchive("Could not find central directory end"))?;
            let count = u16_at(&data, eocd + 10)?;
            let cd_off = u32_at(&data, eocd + 16)?;
            let mut entries = Vec::new();
            let mut p = cd_off;
            for _ in 0..count {
                if u32_at(&data, p)? != 0x0201_4b50 {
                    return Err(ZipError::InvalidArchive("Invalid Central Directory header"));
                }
                let method = u16_at(&data, p + 10)? as u16;
                let crc = u32_at(&data, p + 16)? as u32;
                let csize = u32_at(&data, p + 20)?;
                let usize_ = u32_at(&data, p + 24)?;
                let nlen = u16_at(&data, p + 28)?;
                let elen = u16_at(&data, p + 30)?;
                let clen = u16_at(&data, p + 32)?;
                let offset = u32_at(&data, p + 42)?;
                let name = data
                    .get(p + 46..p + 46 + nlen)
                    .ok_or(ZipError::InvalidArchive("truncated"))?;
                entries.push(Entry {
                    name: String::from_utf8_lossy(name).into_owned(),
                    method,
                    crc,
                    csize,
                    usize_,
                    offset,
                });
                p += 46 + nlen + elen + clen;
            }
            Ok(ZipArchive { _reader: reader, data, entries })
        }

        pub fn len(&self) -> usize {
            self.entries.len()
        }

        pub fn by_name<'a>(&'a mut self, name: &str) -> ZipResult<ZipFile<'a>> {
            let e = self.entries.iter().find(|e| e.name == name).ok_or(ZipError::FileNotFound)?;
            let d = &self.data;
            if u32_at(d, e.offset)? != 0x0403_4b50 {
                return Err(ZipError::InvalidArchive("Invalid local file header"));
            }
            let nlen = u16_at(d, e.offset + 26)?;
            let elen = u16_at(d, e.offset + 28)?;
            let start = e.offset + 30 + nlen + elen;
            let raw = d.get(start..start + e.csize).ok_or(ZipError::InvalidArchive("truncated"))?;
            let out = match e.method {
                0 => raw.to_vec(),
                8 => miniz_oxide::inflate::decompress_to_vec(raw)
                    .map_err(|_| ZipError::InvalidArchive("inflate failed"))?,
                _ => return Err(ZipError::UnsupportedArchive("Compression method not supported")),
            };
            if out.len() != e.usize_ || crc32(&out) != e.crc {
                return Err(ZipError::Io(io::Error::new(io::ErrorKind::Other, "Invalid checksum")));
            }
            Ok(ZipFile { cursor: Cursor::new(out), _marker: std::marker::PhantomData })
        }
    }
}

pub use read::ZipArchive;
pub use write::ZipWriter;
