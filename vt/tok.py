"""Token stream of Instruction.render() -> mnemonic + operand descriptors (never looks at the IL).

Descriptor kinds:
  {'k':'reg','name':N}
  {'k':'imm','v':int,'w':1|2|3}
  {'k':'rel','v':signed int}
  {'k':'imem','mode':'n'|'bp+n'|'px+n'|'py+n'|'bp+px'|'bp+py','n':int|None}
  {'k':'emem_abs','addr':int}
  {'k':'emem_reg','reg':N,'mode':'simple'|'post_inc'|'pre_dec'|'offset','disp':signed}
  {'k':'emem_imem','imem':{imem descriptor},'disp':signed}
"""
from __future__ import annotations

IMEM_NAMES = {
    "BL": 0xD4, "BH": 0xD5, "CL": 0xD6, "CH": 0xD7, "DL": 0xD8, "DH": 0xD9,
    "SI": 0xDA, "SI1": 0xDB, "SI2": 0xDC, "DI": 0xDD, "DI1": 0xDE, "DI2": 0xDF,
    "IOCS_WS": 0xE6, "IOCS_WS1": 0xE7, "IOCS_WS2": 0xE8,
    "BP": 0xEC, "PX": 0xED, "PY": 0xEE, "AMC": 0xEF, "KOL": 0xF0, "KOH": 0xF1, "KIL": 0xF2,
    "EOL": 0xF3, "EOH": 0xF4, "EIL": 0xF5, "EIH": 0xF6, "UCR": 0xF7, "USR": 0xF8, "RXD": 0xF9,
    "TXD": 0xFA, "IMR": 0xFB, "ISR": 0xFC, "SCR": 0xFD, "LCC": 0xFE, "SSR": 0xFF,
}  # transcribed from the README "Internal Memory Map" / "Logic Registers" tables


class TokError(Exception):
    pass


def _kinds(tokens):
    return [(type(t).__name__, str(t)) for t in tokens]


def parse(tokens):
    ks = _kinds(tokens)
    if not ks or ks[0][0] != "TInstr":
        raise TokError(f"no mnemonic: {ks}")
    mn = ks[0][1]
    rest = [k for k in ks[1:] if not (k[0] == "TSep" and k[1].strip() == "")]
    ops, cur, depth = [], [], 0
    for k in rest:
        if k[0] == "TBegMem":
            depth += 1
        if k[0] == "TEndMem":
            depth -= 1
        if k[0] == "TSep" and k[1].strip() == "," and depth == 0:
            ops.append(cur)
            cur = []
        else:
            cur.append(k)
    if cur:
        ops.append(cur)
    return mn, [_operand(o) for o in ops]


def _signed(s):
    if s[0] == "+":
        return int(s[1:], 16)
    if s[0] == "-":
        return -int(s[1:], 16)
    raise TokError(f"bad signed {s}")


def _imem(inner):
    if len(inner) == 1:
        k, s = inner[0]
        if k == "TInt":
            return {"k": "imem", "mode": "n", "n": int(s, 16)}
        if k == "TText" and s in IMEM_NAMES:
            return {"k": "imem", "mode": "n", "n": IMEM_NAMES[s], "named": s}
        raise TokError(f"bad imem {inner}")
    if len(inner) == 3 and inner[1] == ("TSep", "+") and inner[0][0] == "TText":
        base = inner[0][1]
        k, s = inner[2]
        if k == "TInt" and base in ("BP", "PX", "PY"):
            return {"k": "imem", "mode": base.lower() + "+n", "n": int(s, 16)}
        if k == "TText" and base == "BP" and s in ("PX", "PY"):
            return {"k": "imem", "mode": "bp+" + s.lower(), "n": None}
    raise TokError(f"bad imem {inner}")


def _operand(o):
    if len(o) == 1:
        k, s = o[0]
        if k == "TReg":
            return {"k": "reg", "name": s}
        if k == "TInt":
            if s[0] in "+-":
                return {"k": "rel", "v": _signed(s)}
            return {"k": "imm", "v": int(s, 16), "w": {2: 1, 4: 2, 5: 3}[len(s)]}
        raise TokError(f"bad operand {o}")
    if o[0] == ("TBegMem", "(") and o[-1] == ("TEndMem", ")"):
        return _imem(o[1:-1])
    if o[0] == ("TBegMem", "[") and o[-1] == ("TEndMem", "]"):
        inner = o[1:-1]
        if len(inner) == 1 and inner[0][0] == "TAddr":
            return {"k": "emem_abs", "addr": int(inner[0][1], 16)}
        if len(inner) == 1 and inner[0][0] == "TReg":
            return {"k": "emem_reg", "reg": inner[0][1], "mode": "simple", "disp": 0}
        if len(inner) == 2 and inner[0][0] == "TReg" and inner[1] == ("TText", "++"):
            return {"k": "emem_reg", "reg": inner[0][1], "mode": "post_inc", "disp": 0}
        if len(inner) == 2 and inner[0] == ("TText", "--") and inner[1][0] == "TReg":
            return {"k": "emem_reg", "reg": inner[1][1], "mode": "pre_dec", "disp": 0}
        if len(inner) == 2 and inner[0][0] == "TReg" and inner[1][0] == "TInt":
            return {"k": "emem_reg", "reg": inner[0][1], "mode": "offset", "disp": _signed(inner[1][1])}
        if inner and inner[0] == ("TBegMem", "("):
            end = inner.index(("TEndMem", ")"))
            im = _imem(inner[1:end])
            tail = inner[end + 1:]
            disp = 0
            if tail:
                if len(tail) != 1 or tail[0][0] != "TInt":
                    raise TokError(f"bad emem_imem tail {o}")
                disp = _signed(tail[0][1])
            return {"k": "emem_imem", "imem": im, "disp": disp, "has_disp": bool(tail)}
    raise TokError(f"bad operand {o}")


# ---- assembler text (C09): numbers -> 0x literals, named IMEM registers stay names ----

def to_asm_text(tokens) -> str:
    out = []
    for k, s in _kinds(tokens):
        if k == "TInt":
            if s[0] in "+-":
                out.append(s[0] + "0x" + s[1:])
            else:
                out.append("0x" + s)
        elif k == "TAddr":
            out.append("0x" + s)
        else:
            out.append(s)
    return "".join(out)
