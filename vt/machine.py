"""Machine-level drivers for C12/C13/C16/C18: one script vocabulary, two real models.

Script ops: ("step",) ("press", KEY) ("release", KEY) ("on", 0|1) ("wimem", off, val) ("imem_or", off, mask)
            ("imem_and", off, mask) ("save", path) ("load", path) ("obs",)
Scenario  : {code:[[addr,hex]..] (ROM window image pieces), regs{}, imem{off:val}, timer{enabled,mti,sti,kb_irq}}
Both drivers return one observation record per ("step",) / ("obs",) op (same keys).
"""
from __future__ import annotations

import os

IMEM = 0x100000
ROM_BASE = 0xC0000
VECTOR = 0xFFFFA
ENTRY = 0xFFFFD


def rom_image(pieces):
    """pieces: list of (addr, bytes) inside 0xC0000..0xFFFFF -> 256 KiB image."""
    img = bytearray(0x40000)
    for a, b in pieces:
        off = a - ROM_BASE
        img[off:off + len(b)] = b
    return bytes(img)


def le3(v):
    return bytes([v & 0xFF, (v >> 8) & 0xFF, (v >> 16) & 0x0F])


class PyMachine:
    def __init__(self, scen, obs_lcd=False, obs_full=False):
        os.environ.setdefault("FORCE_BINJA_MOCK", "1")
        from pce500.emulator import PCE500Emulator
        from sc62015.pysc62015.emulator import RegisterName
        self.RN = RegisterName
        emu = PCE500Emulator(save_lcd_on_exit=False, perfetto_trace=False)
        self.emu = emu
        self.obs_lcd = obs_lcd
        self.obs_full = obs_full
        self.keyi_log = []
        self._hook_keyi(emu)
        self.load_scenario(scen)

    def _hook_keyi(self, emu):
        """Invariant at a hook (applied from the harness, instance level): every time the emulator ORs KEYI into
        ISR, record whether events were pending and keyboard interrupts enabled at that very moment."""
        orig = emu._set_isr_bits
        log = self.keyi_log

        def wrapped(mask):
            if mask & 0x04:
                try:
                    isr = emu.memory.external_memory[len(emu.memory.external_memory) - 256 + 0xFC]
                    if not (isr & 0x04):
                        log.append({"fifo_len": len(emu.keyboard.fifo_snapshot()), "kb_irq": bool(emu._kb_irq_enabled),
                                    "latched": bool(emu._key_irq_latched), "cycle": int(emu.cycle_count)})
                except Exception:  # noqa: BLE001
                    pass
            return orig(mask)
        emu._set_isr_bits = wrapped

    def load_scenario(self, scen):
        emu, RN = self.emu, self.RN
        pieces = [(a, bytes.fromhex(h)) for a, h in scen.get("code", [])]
        emu.load_rom(rom_image(pieces))
        if scen.get("bare"):
            return      # a fresh emulator with only the ROM inserted (C16: everything else must come from the snapshot)
        if scen.get("fast_mode"):
            emu.fast_mode = True      # the minimal execution path the command-line front ends select by default
        t = scen.get("timer", {})
        emu._timer_enabled = bool(t.get("enabled", False))
        emu._timer_mti_period = int(t.get("mti", 0))
        emu._timer_sti_period = int(t.get("sti", 0))
        emu._scheduler.reset(cycle_base=0)
        emu.cycle_count = 0
        if "kb_irq" in t:
            emu._kb_irq_enabled = bool(t["kb_irq"])
        for off, v in scen.get("imem", {}).items():
            emu.memory.write_byte(IMEM + int(off), v)
        for k, v in scen.get("regs", {}).items():
            emu.cpu.regs.set(RN[k], v)
        emu.cpu.state.halted = False

    def obs(self):
        emu, RN = self.emu, self.RN
        g = emu.cpu.regs.get
        s = g(RN.S)
        pc = g(RN.PC)
        rb = emu.memory.read_byte
        o = {"pc": pc, "BA": g(RN.BA), "I": g(RN.I), "X": g(RN.X), "Y": g(RN.Y), "U": g(RN.U), "S": s,
             "f": g(RN.F) & 3, "imr": rb(IMEM + 0xFB) & 0xFF, "isr": rb(IMEM + 0xFC) & 0xFF,
             "stack": [rb((s + d) & 0xFFFFF) & 0xFF for d in range(-5, 6)],
             "in_irq": bool(emu._in_interrupt), "irq_total": int(emu.irq_counts.get("total", 0)),
             "irq_key": int(emu.irq_counts.get("KEY", 0)), "irq_mti": int(emu.irq_counts.get("MTI", 0)),
             "irq_sti": int(emu.irq_counts.get("STI", 0)),
             "next_mti": int(emu._scheduler.next_mti), "next_sti": int(emu._scheduler.next_sti),
             "timer_enabled": bool(emu._timer_enabled),
             "power": "halted" if emu.cpu.state.halted else "running",
             "cycles": int(emu.cycle_count), "instrs": int(emu.instruction_count),
             "pending": bool(emu._irq_pending), "source": emu._irq_source.name if emu._irq_source else None,
             "opcode": rb(pc) & 0xFF, "fifo": list(emu.keyboard.fifo_snapshot())}
        # the operation byte behind an optional PRE byte (a prefixed RETI/HALT/IR is still that instruction)
        o["op_eff"] = (rb(pc + 1) & 0xFF) if (0x21 <= o["opcode"] <= 0x27 or 0x30 <= o["opcode"] <= 0x37) else o["opcode"]
        if self.obs_lcd:
            import zlib
            snap = emu.lcd.get_snapshot()
            o["lcd_meta"] = [[c.on, c.start_line, c.page, c.y_address] for c in snap.chips]
            o["lcd_crc"] = zlib.crc32(bytes(b for c in snap.chips for p in c.vram for b in p))
        if self.obs_full:
            import zlib
            ext = emu.memory.external_memory
            o["imem"] = bytes(ext[len(ext) - 256:]).hex()
            o["ram_crc"] = zlib.crc32(bytes(rb(a) & 0xFF for a in range(0xB8000, 0xB8200))
                                      + bytes(rb(a) & 0xFF for a in range(0xB8F00, 0xBA010)))
            o["rom_crc"] = zlib.crc32(bytes(rb(a) & 0xFF for a in range(0xC0000, 0xC0400)))
            o["lcdwin_crc"] = zlib.crc32(bytes(ext[0x2000:0x2010]) + bytes(ext[0xA000:0xA010]))
            o["call_depth"] = int(emu.call_depth)
            o["kol"] = rb(IMEM + 0xF0) & 0xFF
            o["koh"] = rb(IMEM + 0xF1) & 0xFF
            kb = emu.keyboard
            o["pressed"] = sorted(str(k) for k in kb._matrix.get_pressed_keys())
        return o

    def run(self, script):
        out = []
        emu = self.emu
        for op in script:
            k = op[0]
            if k == "step":
                err = None
                try:
                    emu.step()
                except BaseException as e:  # noqa: BLE001
                    err = f"{type(e).__name__}:{str(e)[:120]}"
                o = self.obs()
                if err:
                    o["step_error"] = err
                out.append(o)
            elif k == "obs":
                out.append(self.obs())
            elif k == "press":
                emu.press_key(op[1])
            elif k == "release":
                emu.release_key(op[1])
            elif k == "on":
                if op[1]:
                    emu.press_key("KEY_ON")
                else:
                    emu.release_key("KEY_ON")
            elif k == "pyreset":
                emu.reset()           # a second reset of an emulator that has already run (Python model only)
            elif k == "treset":
                emu._scheduler.reset(cycle_base=emu.cycle_count)     # the host re-arms the timers at the current cycle
            elif k == "wimem":
                emu.memory.write_byte(IMEM + op[1], op[2])
            elif k == "imem_or":
                cur = emu.memory.read_byte(IMEM + op[1]) & 0xFF
                emu.memory.write_byte(IMEM + op[1], cur | op[2])
            elif k == "imem_and":
                cur = emu.memory.read_byte(IMEM + op[1]) & 0xFF
                emu.memory.write_byte(IMEM + op[1], cur & op[2])
            elif k == "save":
                emu.save_snapshot(op[1])
            elif k == "load_into":
                emu.load_snapshot(op[1])
            elif k == "load":
                from pce500.emulator import PCE500Emulator
                fresh = PCE500Emulator(save_lcd_on_exit=False, perfetto_trace=False)
                fresh.load_snapshot(op[1])
                self._hook_keyi(fresh)
                self.emu = emu = fresh
            else:
                raise ValueError(k)
        return out


def rust_script(script, key_codes):
    """Translate the common script into `vrt rt` ops; returns (ops, indices of ops that produce an observation)."""
    ops = []
    for op in script:
        k = op[0]
        if k in ("press", "release"):
            ops.append([k, key_codes[op[1]]])
        elif k == "pyreset":
            continue
        else:
            ops.append(list(op))
    return ops


def run_rust(scenarios_scripts, key_codes, obs_lcd=False, timeout=900, obs_full=False, valgrind=False):
    """[(scenario, script)] -> list of observation lists (one per step/obs op)."""
    from . import rust
    payload = []
    for i, (scen, script) in enumerate(scenarios_scripts):
        p = {"id": i, "code": scen.get("code", []), "rom_ro": True, "regs": scen.get("regs", {}),
             "imem": {str(k): v for k, v in scen.get("imem", {}).items()}, "timer": scen.get("timer", {}),
             "obs_lcd": obs_lcd, "obs_full": obs_full, "bare": bool(scen.get("bare")),
             "script": rust_script(script, key_codes)}
        if scen.get("overlays"):
            p["overlays"] = scen["overlays"]
        if scen.get("card"):
            p["card"] = scen["card"]
        payload.append(p)
    if valgrind:
        rr, rep = rust.run_valgrind("rt", payload, timeout=timeout)
        if rr is None or len(rr) != len(payload):
            return None, rep
    else:
        rr = rust.run("rt", payload, timeout=timeout)
    outs = []
    for (scen, script), r in zip(scenarios_scripts, rr):
        obs = [o for op, o in zip([x for x in script if x[0] != "pyreset"], r["out"]) if op[0] in ("step", "obs")]
        outs.append((obs, r.get("error"), r["out"]))
    if valgrind:
        return outs, rep
    return outs
