"""JSONL bridge to the Rust harness binary (vrt)."""
from __future__ import annotations

import json
import subprocess

from .repoenv import VRT


def _die_with_parent():
    """preexec hook: the harness process is killed when the worker that started it dies (a worker stopped by the watchdog
    must not leave a harness behind that spins in code under test)."""
    try:
        import ctypes
        import signal
        ctypes.CDLL("libc.so.6", use_errno=True).prctl(1, signal.SIGKILL)      # PR_SET_PDEATHSIG
    except Exception:  # noqa: BLE001
        pass


def run(subcmd: str, cases: list[dict], timeout: float = 600.0) -> list[dict]:
    """Feed all cases to one `vrt <subcmd>` process; returns one result dict per case (same order)."""
    if not cases:
        return []
    inp = "\n".join(json.dumps(c, separators=(",", ":")) for c in cases) + "\n"
    p = subprocess.run([str(VRT), subcmd], input=inp.encode(), stdout=subprocess.PIPE,
                       stderr=subprocess.PIPE, timeout=timeout, preexec_fn=_die_with_parent)
    lines = [l for l in p.stdout.decode().splitlines() if l.strip()]
    out = []
    for l in lines:
        try:
            out.append(json.loads(l))
        except json.JSONDecodeError:
            out.append({"harness_error": "bad output line: " + l[:200]})
    if p.returncode != 0 or len(out) != len(cases):
        raise RuntimeError(f"vrt {subcmd}: rc={p.returncode} got {len(out)}/{len(cases)} results; "
                           f"stderr={p.stderr.decode(errors='replace')[-800:]}")
    return out


def run_valgrind(subcmd: str, cases: list[dict], timeout: float = 1800.0):
    """Same bridge under valgrind memcheck. -> (results | None, report) ; report = {"available", "errors", "log"}.
    Every memcheck error makes valgrind exit 97 (--error-exitcode); leak checking is off (process-lifetime statics)."""
    import shutil
    vg = shutil.which("valgrind")
    if not vg or not cases:
        return None, {"available": bool(vg), "errors": 0, "log": ""}
    inp = "\n".join(json.dumps(c, separators=(",", ":")) for c in cases) + "\n"
    p = subprocess.run([vg, "--error-exitcode=97", "--leak-check=no", "--quiet", str(VRT), subcmd], input=inp.encode(),
                       stdout=subprocess.PIPE, stderr=subprocess.PIPE, timeout=timeout, preexec_fn=_die_with_parent)
    err = p.stderr.decode(errors="replace")
    out = []
    for l in p.stdout.decode().splitlines():
        if l.strip():
            try:
                out.append(json.loads(l))
            except json.JSONDecodeError:
                out.append({"harness_error": l[:200]})
    nerr = err.count("== Invalid ") + err.count("== Conditional jump") + err.count("== Use of uninitialised") + \
        err.count("== Mismatched free") + err.count("== Invalid free")
    if p.returncode == 97 and nerr == 0:
        nerr = 1
    return out, {"available": True, "errors": nerr, "rc": p.returncode, "log": err[-1500:], "results": len(out)}
