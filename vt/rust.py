"""JSONL bridge to the Rust harness binary (vrt)."""
from __future__ import annotations

import json
import subprocess

from .repoenv import VRT


def run(subcmd: str, cases: list[dict], timeout: float = 600.0) -> list[dict]:
    """Feed all cases to one `vrt <subcmd>` process; returns one result dict per case (same order)."""
    if not cases:
        return []
    inp = "\n".join(json.dumps(c, separators=(",", ":")) for c in cases) + "\n"
    p = subprocess.run([str(VRT), subcmd], input=inp.encode(), stdout=subprocess.PIPE,
                       stderr=subprocess.PIPE, timeout=timeout)
    lines = [l for l in p.stdout.decode().splitlines() if l.strip()]
    out = []
    for l in lines:
        try:
            out.append(json.loads(l))
        except json.JSONDecodeError:
            out.append({"harness_error": "bad output line: " + l[:200]})
    if p.returncode != 0 or len(out) != len(cases):
        raise RuntimeError(f"vrt {subcmd}: rc={p.returncode} got {len(out)}/{len(cases)} results; "
                           f"stderr={p.stderr.decode(errors='replace')[-800:]}")
    return out
