"""Case/state generators for single-instruction executions (C03/C04/C05/C06/C07).

A case is JSON-able: {bytes, addr, regs{BA,I,X,Y,U,S,FC,FZ,FHI}, mem{addr:byte}, flavour, pfx, op, b2}
Unlisted memory reads as pyside.fill_byte(addr) on both cores.
"""
from __future__ import annotations

from . import tok
from .enc import head_bytes

IMEM = 0x100000
COUNTED = {"MVL", "MVLD", "EXL", "ADCL", "SBCL", "DADL", "DSBL", "DSLL", "DSRL", "WAIT"}
MODES = ("n", "bp+n", "px+n", "py+n", "bp+px", "bp+py")
_decode = None


def _dec():
    global _decode
    if _decode is None:
        from .pyside import FlatMem  # noqa: F401
        from sc62015.pysc62015.instr import decode, OPCODES
        from sc62015.arch import SC62015
        arch = SC62015()

        def d(buf, addr):
            try:
                if arch.get_instruction_info(buf, addr) is None:
                    return None
                return decode(buf, addr, OPCODES)
            except BaseException:  # noqa: BLE001
                return None
        _decode = d
    return _decode


def imem_descs(ops, mn=None):
    out = []
    for d in ops:
        if d["k"] == "imem":
            out.append((d, mn == "JP"))
        elif d["k"] == "emem_imem":
            out.append((d["imem"], True))
    return out


def candidates(n, bp, px, py):
    n = n or 0
    return {"n": n & 0xFF, "bp+n": (bp + n) & 0xFF, "px+n": (px + n) & 0xFF, "py+n": (py + n) & 0xFF,
            "bp+px": (bp + px) & 0xFF, "bp+py": (bp + py) & 0xFF}


def pick_pointers(r, ns, tries=400):
    """BP,PX,PY such that all candidate offsets of all operands are >= 4 apart and <= 0xE4."""
    for _ in range(tries):
        bp, px, py = r.randrange(1, 0xE0), r.randrange(1, 0xE0), r.randrange(1, 0xE0)
        offs = []
        for i, n in enumerate(ns):
            c = candidates(n, bp, px, py)
            for m, o in c.items():
                if m in ("bp+px", "bp+py") and i > 0:
                    continue
                offs.append((o, m == "n"))
        offs.sort()
        ok = True
        for (a, an), (b, _) in zip(offs, offs[1:]):
            if b - a < 4:
                ok = False
                break
        if ok and all(o <= 0xE4 or is_n for o, is_n in offs):
            return bp, px, py, True
    return r.randrange(256), r.randrange(256), r.randrange(256), False


def _dontcare(ins):
    out = []
    stack = list(ins.operands_coding())
    while stack:
        o = stack.pop()
        eh = getattr(o, "extra_hi", None)
        if isinstance(eh, int) and (eh >> 4):
            out.append("imm20_hi_nibble")
        for attr in ("reg", "imem", "imem1", "imem2", "mode_imm", "offset"):
            sub = getattr(o, attr, None)
            if sub is not None and hasattr(sub, "__dict__") and not isinstance(sub, str):
                stack.append(sub)
    return out


BOUNDARY_BYTES = (0x00, 0x01, 0x02, 0x7F, 0x80, 0xEB, 0xEC, 0xEE, 0xEF, 0xFB, 0xFD, 0xFE, 0xFF)


def build_case(r, pfx, op, b2, flavour="dist", addr=None, small_payload=True, icount=None, canonical=None):
    dec = _dec()
    if small_payload:
        tail = bytes(r.randrange(0x08, 0x60) for _ in range(5))
    elif flavour == "boundary":
        # operand bytes at the edges too (internal offsets next to FF/00/EC, displacements 00/7F/80/FF, page edges)
        tail = bytes(r.choice(BOUNDARY_BYTES) if r.random() < 0.6 else r.randrange(256) for _ in range(5))
    else:
        tail = bytes(r.randrange(256) for _ in range(5))
    buf = head_bytes(pfx, op, b2, tail)
    if addr is None:
        addr = 0x12000 + r.randrange(0x7F0)
    ins = dec(buf, addr)
    if ins is None:
        return None
    L = ins.length()
    dc = _dontcare(ins)
    if dc and (canonical if canonical is not None else r.random() < 0.6):
        # canonical flavour: clear the ignored high nibble of 20-bit immediates/addresses
        from sc62015.pysc62015.instr import encode
        stack = list(ins.operands_coding())
        while stack:
            o = stack.pop()
            if isinstance(getattr(o, "extra_hi", None), int):
                o.extra_hi &= 0x0F
            for attr in ("reg", "imem", "imem1", "imem2", "mode_imm", "offset"):
                sub = getattr(o, attr, None)
                if sub is not None and hasattr(sub, "__dict__") and not isinstance(sub, str):
                    stack.append(sub)
        buf = bytes(encode(ins, addr)) + buf[L:]
        dc = []
    follower = b""
    if r.random() < 0.5:
        # hostile follower: the SAME prefix/opcode again with another register selector and other operand bytes. The
        # decoder looks one instruction ahead (PRE fusion); whatever it learns there must not leak into this instruction
        # (operand objects shared between instances of one opcode would).
        k = (1 if pfx is not None else 0) + 1
        tw = bytearray(buf[:L])
        for j in range(k, L):
            tw[j] = ((tw[j] & 0xF8) | ((tw[j] + 1) & 7)) if j == k else (tw[j] ^ 0x5A)
        if L > k and dec(bytes(tw) + b"\x00\x00", addr + L) is not None:
            follower = bytes(tw)
    buf = buf[:L] + follower + bytes([0x00, 0x00])  # then NOPs: lookahead decodes harmlessly
    try:
        mn, ops = tok.parse(ins.render())
    except tok.TokError:
        mn, ops = ins.name(), []
    case = {"bytes": buf.hex(), "addr": addr, "flavour": flavour, "len": L,
            "pfx": pfx, "op": op, "b2": b2, "mn": mn,
            "opc": getattr(ins, "opcode", None), "preb": getattr(ins, "_pre", None), "dontcare": dc,
            "follower": bool(follower)}
    mem: dict[int, int] = {}
    regs = {}
    if flavour == "dist":
        ids = imem_descs(ops, mn)
        ns = [d.get("n") for d, _ in ids]
        bp, px, py, good = pick_pointers(r, ns if ns else [0x10])
        case["distinct_bases"] = good
        mem[IMEM + 0xEC], mem[IMEM + 0xED], mem[IMEM + 0xEE] = bp, px, py
        k = 0
        for d, is_ptr in ids:
            if is_ptr:
                for m, o in candidates(d.get("n"), bp, px, py).items():
                    p = 0x60000 + k * 0x400 + r.randrange(0x100, 0x2FF)
                    k += 1
                    for i in range(3):
                        if o + i <= 0xFF and (IMEM + o + i) not in (IMEM + 0xEC, IMEM + 0xED, IMEM + 0xEE):
                            mem[IMEM + o + i] = (p >> (8 * i)) & 0xFF
        regs = {"BA": r.randrange(1 << 16), "I": r.randrange(1 << 16),
                "X": 0x20000 + r.randrange(0x100, 0xF00), "Y": 0x30000 + r.randrange(0x100, 0xF00),
                "U": 0x40000 + r.randrange(0x100, 0xF00), "S": 0x50000 + r.randrange(0x100, 0xF00),
                "FC": r.randrange(2), "FZ": r.randrange(2), "FHI": r.randrange(256) & 0xFC}
        if mn in COUNTED:
            regs["I"] = icount if icount is not None else r.choice((1, 2, 3, 7))
        if mn in ("DADL", "DSBL", "DSLL", "DSRL"):
            # valid BCD digits around every candidate operand location
            for d, _ in ids:
                for o in candidates(d.get("n"), bp, px, py).values():
                    for i in range(-8, 9):
                        a = o + i
                        if 0 <= a <= 0xEB:
                            mem.setdefault(IMEM + a, (r.randrange(10) << 4) | r.randrange(10))
            regs["BA"] = (regs["BA"] & 0xFF00) | (r.randrange(10) << 4) | r.randrange(10)
    elif flavour == "boundary":
        regs = {"BA": r.choice((0, 0xFFFF, 0x00FF, 0xFF00, 0x8000)),
                "I": icount if icount is not None else (r.choice((1, 2, 3)) if mn in COUNTED else 1),
                "X": r.choice((0xFFFFF, 0xFFFFE, 0, 1, 0x0FFFF, 0x10000)),
                "Y": r.choice((0xFFFFF, 0xFFFFD, 0, 2, 0x7FFFF)),
                "U": r.choice((0xFFFFF, 3, 0, 0x10001)), "S": r.choice((0xFFFFF, 0xFFFF0, 4, 0, 8)),
                "FC": r.randrange(2), "FZ": r.randrange(2), "FHI": r.choice((0, 0xFC))}
        for o in (0xEC, 0xED, 0xEE):
            mem[IMEM + o] = r.choice((0, 0xFF, 0x80, 0xFE, 1))
    else:  # random
        regs = {"BA": r.randrange(1 << 16), "I": r.randrange(1 << 16),
                "X": r.randrange(1 << 20), "Y": r.randrange(1 << 20), "U": r.randrange(1 << 20),
                "S": r.randrange(1 << 20), "FC": r.randrange(2), "FZ": r.randrange(2),
                "FHI": r.randrange(256) & 0xFC}
        if mn in COUNTED:
            regs["I"] = icount if icount is not None else r.choice((1, 2, 5))
        for o in (0xEC, 0xED, 0xEE):
            mem[IMEM + o] = r.randrange(256)
    case["regs"] = regs
    case["mem"] = {str(k): v for k, v in mem.items()}
    return case


def pre_reader(case):
    """Pure reader of the case's pre-state memory (code bytes + planted bytes + background fill)."""
    from .pyside import fill_byte
    mem = {int(k): v for k, v in case.get("mem", {}).items()}
    code = bytes.fromhex(case["bytes"])
    base = case["addr"]
    for i, b in enumerate(code):
        mem[(base + i) & 0xFFFFFF] = b

    def rd(a):
        a &= 0xFFFFFF
        v = mem.get(a)
        return fill_byte(a) if v is None else v
    return rd
