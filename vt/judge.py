"""Compare one observed Python execution with the README reference (C03 location clauses, C04 value clauses)."""
from __future__ import annotations

from . import tok, refisa
from .states import pre_reader

IMEM = 0x100000


def fmt_addr(a):
    return f"i{a - IMEM:02X}" if a >= IMEM else f"{a:05X}"


# README PRE table (rows: first operand byte, columns: second)  ->  pre byte: (first mode, second mode) in tok's spelling
README_PRE = {
    0x32: ("n", "n"), 0x30: ("n", "bp+n"), 0x33: ("n", "py+n"), 0x31: ("n", "bp+py"),
    0x22: ("bp+n", "n"), 0x23: ("bp+n", "py+n"), 0x21: ("bp+n", "bp+py"),
    0x36: ("px+n", "n"), 0x34: ("px+n", "bp+n"), 0x37: ("px+n", "py+n"), 0x35: ("px+n", "bp+py"),
    0x26: ("bp+px", "n"), 0x24: ("bp+px", "bp+n"), 0x27: ("bp+px", "py+n"), 0x25: ("bp+px", "bp+py"),
}


def judge(case, obs):
    """-> dict(unjudged, mn, ops, c03=[(clause, fields, detail)], c04=[...], ref)"""
    out = {"unjudged": None, "c03": [], "c04": [], "mn": None, "ops": None, "ref": None}
    try:
        mn, ops = tok.parse(obs["tokens"])
    except tok.TokError as e:
        out["unjudged"] = "tok:" + str(e)[:80]
        return out
    out["mn"], out["ops"] = mn, ops
    if mn.startswith("???") or mn.startswith("PRE") or mn.startswith("UNK"):
        out["unjudged"] = "not_an_instruction"
        return out
    ref = refisa.step(mn, ops, case["regs"], pre_reader(case), case["addr"], obs["length"])
    out["ref"] = ref
    opc = case.get("opc")
    if ref.unjudged is None and opc in (0x44, 0x45, 0x46, 0x4C, 0x4D, 0x4E) and ops and ops[0]["k"] == "reg":
        cls = {0x44: 2, 0x4C: 2, 0x45: 3, 0x4D: 3, 0x46: 1, 0x4E: 1}[opc]
        if refisa.W[ops[0]["name"]] != cls:
            ref.unjudged = "regpair_class_mismatch"  # README rows: 44 r2,r' / 45 r3,r' / 46 r1,r1'"
    if ref.unjudged is None:
        lo, hi = case["addr"], case["addr"] + 16   # pyexec.FETCH_SPAN: reads there are taken for fetches
        if any(lo <= a < hi for a in (ref.data_reads | set(ref.w) | ref.addr_reads)):
            ref.unjudged = "operand_overlaps_code_window"
    if ref.unjudged:
        out["unjudged"] = ref.unjudged
        return out

    # ---------------- C04: the PRE byte selects the documented addressing modes ----------------
    # README "Internal RAM Addressing Prefix Byte Table": rows = calculation of the FIRST operand byte, columns = of the
    # SECOND.  Decided only where the table decides: two internal-memory operand bytes in the instruction.
    preb = case.get("preb")
    if preb in README_PRE:
        modes = []
        for d in ops:
            if d["k"] == "imem":
                modes.append(d["mode"])
            elif d["k"] == "emem_imem":
                modes.append(d["imem"]["mode"])
        if len(modes) == 2 and tuple(modes) != README_PRE[preb]:
            out["c04"].append(("pre_modes", ["addressing_modes"], {"pre": f"{preb:02X}", "rendered": modes,
                                                                 "readme_table": list(README_PRE[preb])}))

    # ---------------- C03: locations -------------------------------------------------------
    w_obs = {a for a, _ in obs["writes"]}
    w_ref = set(ref.w)
    r_obs = set(obs["reads"])
    fields = []
    if w_obs - w_ref:
        fields.append("writes_extra")
    if w_ref - w_obs - ref.optional_writes:
        fields.append("writes_missing")
    permitted = ref.data_reads | ref.addr_reads | w_ref
    if r_obs - permitted:
        fields.append("reads_extra")
    if ref.data_reads - r_obs:
        fields.append("reads_missing")
    for p in ("X", "Y", "U", "S"):
        if obs["regs"][p] != (ref.r[p] & 0xFFFFF):
            fields.append("ptr_" + p)
    if fields:
        out["c03"].append(("locations", sorted(fields), {
            "text_ops": ops,
            "writes_extra": sorted(fmt_addr(a) for a in w_obs - w_ref)[:8],
            "writes_missing": sorted(fmt_addr(a) for a in w_ref - w_obs - ref.optional_writes)[:8],
            "reads_extra": sorted(fmt_addr(a) for a in r_obs - permitted)[:8],
            "reads_missing": sorted(fmt_addr(a) for a in ref.data_reads - r_obs)[:8],
            "ptrs": {p: (obs["regs"][p], ref.r[p]) for p in ("X", "Y", "U", "S")
                     if obs["regs"][p] != (ref.r[p] & 0xFFFFF)},
        }))

    # ---------------- C04: values, flags, frame --------------------------------------------
    f4 = []
    det = {}
    for n in ("BA", "I", "X", "Y", "U", "S"):
        if n == "I" and "I" in ref.dc:
            continue
        if obs["regs"][n] != ref.r[n]:
            f4.append(n)
            det[n] = (obs["regs"][n], ref.r[n])
    if "PC" not in ref.dc and obs["PC"] != ref.pc:
        f4.append("PC")
        det["PC"] = (obs["PC"], ref.pc)
    if "C" not in ref.dc and obs["FC"] != ref.r["FC"]:
        f4.append("C")
        det["C"] = (obs["FC"], ref.r["FC"])
    if "Z" not in ref.dc and obs["FZ"] != ref.r["FZ"]:
        f4.append("Z")
        det["Z"] = (obs["FZ"], ref.r["FZ"])
    rd = pre_reader(case)
    mem = obs["mem"]
    bad_mem = []
    for a in sorted(w_obs | w_ref):
        got = mem.peek(a)
        if a in ref.w:
            if "val" in ref.dc:
                continue
            mask = ref.wmask.get(a, 0xFF)
            exp = ref.w[a]
        else:
            mask, exp = 0xFF, rd(a)   # frame: not in the documented write set => must keep its old value
        if (got ^ exp) & mask:
            bad_mem.append((fmt_addr(a), got, exp))
    if bad_mem:
        f4.append("mem")
        det["mem"] = bad_mem[:8]
    if ref.halted != obs["halted"]:
        f4.append("halted")
        det["halted"] = (obs["halted"], ref.halted)
    if f4:
        out["c04"].append(("result", sorted(f4), det))
    return out


def case_tags(case, ops):
    """Structural tags of a concrete case used by known-finding predicates (mechanism keys)."""
    tags = []
    if case.get("preb") is not None:
        tags.append("pre")
    else:
        tags.append("nopre")
    for i, d in enumerate(ops or []):
        if d["k"] == "emem_reg":
            tags.append(f"op{i}_{d['mode']}")
        if d["k"] == "emem_imem":
            tags.append(f"op{i}_emem_imem")
    if (case.get("mn") in ("MVL", "MVLD", "EXL", "ADCL", "SBCL", "DADL", "DSBL", "DSLL", "DSRL")
            and case["regs"]["I"] > 1):
        tags.append("I>1")
    return sorted(tags)


def undoc_tags(case, tokens):
    """Tags that place a case in territory the README does not determine (reference 'unjudged' reason),
    plus value-class tags.  Used by C06/C07 known-finding predicates."""
    tags = []
    if case["regs"].get("FHI", 0) & 0xFC and case.get("opc") in (0x2E, 0x4F, 0xFE):
        tags.append("fhi_nonzero")   # only the instructions that push F can expose F bits 2-7
    for d in case.get("dontcare", []) or []:
        tags.append(d)
    try:
        mn, ops = tok.parse(tokens)
    except tok.TokError:
        return tags, "?", []
    if mn.startswith("???"):
        return tags + ["undoc:unknown_opcode"], mn, ops
    ref = refisa.step(mn, ops, case["regs"], pre_reader(case), case["addr"], case["len"])
    opc = case.get("opc")
    if ref.unjudged is None and opc in (0x44, 0x45, 0x46, 0x4C, 0x4D, 0x4E) and ops and ops[0]["k"] == "reg":
        cls = {0x44: 2, 0x4C: 2, 0x45: 3, 0x4D: 3, 0x46: 1, 0x4E: 1}[opc]
        if refisa.W[ops[0]["name"]] != cls:
            ref.unjudged = "regpair_class_mismatch"
    if ref.unjudged == "dadl_with_carry_in":
        # both cores document "no carry-in" for DADL: classify by BCD validity instead
        ref = refisa.step(mn, ops, dict(case["regs"], FC=0), pre_reader(case), case["addr"], case["len"])
    if ref.unjudged:
        tags.append("undoc:" + ref.unjudged.split(":")[0])
    if "val" in ref.dc and mn in ("DADL", "DSBL"):
        tags.append("bcd_invalid_digits")
    if mn in ("MVL", "MVLD") and (ref.data_reads & set(ref.w)):
        tags.append("block_overlap")
    return tags, mn, ops
