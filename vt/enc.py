"""Structural enumerator of SC62015 encodings shared by C01/C02/C03/C05/C06/C09.

A *head* is (prefix | None, opcode, second byte).  The property statements note that every byte
that steers decoding is the byte right after the opcode, so prefix x opcode x second-byte contains
every decode path; later bytes are payload drawn from a seeded stream plus boundary values.
"""
from __future__ import annotations

from .core import rng

PREFIXES = [None, 0x21, 0x22, 0x23, 0x24, 0x25, 0x26, 0x27,
            0x30, 0x31, 0x32, 0x33, 0x34, 0x35, 0x36, 0x37]

# second bytes that hit every mode-nibble class (0,2,3,8,C valid; 1,4,F invalid) x reg 0..7 mix,
# RegPair legal/illegal, EMemIMem 00/80/C0
QUICK_SECOND = [0x00, 0x04, 0x24, 0x35, 0x86, 0xC7, 0x80, 0xC0, 0x14, 0x4C, 0xF4, 0x23, 0x0C, 0x8D]


def payload(seed: int, pfx, op: int, b2: int, n: int = 5) -> bytes:
    r = rng(seed, "payload", pfx, op, b2)
    return bytes(r.randrange(256) for _ in range(n))


def head_bytes(pfx, op: int, b2: int, tail: bytes) -> bytes:
    out = bytearray()
    if pfx is not None:
        out.append(pfx)
    out.append(op)
    out.append(b2)
    out += tail
    return bytes(out)


def shard_heads(spec: dict):
    """spec: {'prefixes': [idx...], 'ops': [lo, hi), 'seconds': 'all' | [..]}"""
    seconds = range(256) if spec["seconds"] == "all" else spec["seconds"]
    for pi in spec["prefixes"]:
        pfx = PREFIXES[pi]
        for op in range(spec["ops"][0], spec["ops"][1]):
            for b2 in seconds:
                yield pfx, op, b2


def plan_heads(tier: str, nshards_quick: int = 16) -> list[dict]:
    specs = []
    if tier == "quick":
        step = 256 // nshards_quick
        for lo in range(0, 256, step):
            specs.append({"prefixes": list(range(16)), "ops": [lo, lo + step], "seconds": QUICK_SECOND})
    else:
        for pi in range(16):
            for lo in range(0, 256, 64):
                specs.append({"prefixes": [pi], "ops": [lo, lo + 64], "seconds": "all"})
    return specs
