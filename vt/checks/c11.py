"""C11 - the memory bus behaves like memory (both machine models)."""
from __future__ import annotations

import zlib

from ..core import Result, rng
from ..pyside import fill_byte

PROPERTY = "C11"
LEVEL = "exploration"
NEEDS = ("rust",)
EXHAUSTIVE = {"quick": False, "thorough": False}
REQUIRED_MONITORS = ["py_read_oracle", "py_conservation", "rs_read_oracle", "rs_conservation", "alias_probe",
                     "le_composition", "cpu_path"]
RULE = ("every memory configuration (Python: ROM image y/n x card {absent, 8/16/32/64 KiB, read-only} x extra overlays "
        "{none, RAM, ROM, overlapping}; Rust: mirror on/off x card {none, absent slot, 4 sizes} x overlays x read-only "
        "ranges {0,1,2}) x seeded histories of 8/16/24-bit loads/stores at addresses drawn 70% from boundary "
        "neighbourhoods (0, card ends, 0x7FFFF/0x80000, mirror window ends, ROM start, 0xFFEFF/0xFFF00, 0xFFFFF/0x100000, "
        "0x1000FF/0x100100, 0xFFFFFF/0x1000000, overlay and read-only edges) and 30% uniformly from 32 bits. Oracle: a "
        "per-location reference store (RAM keeps last write, ROM/read-only/absent never change) under each model's "
        "documented canonicalisation; conservation: after every store ALL backing arrays are diffed and only the written "
        "locations may change; alias probes; wide accesses == little-endian composition of byte accesses; plus the "
        "CPU-facing Rust bus exercised by small programs through CoreRuntime::step. distinct_nontrivial = distinct "
        "(model, configuration, history) runs that performed at least one store to RAM and read it back.")
ASSUMPTIONS = ["device windows (keyboard F0-F2 with a handler installed, LCD) are excluded: no handlers are installed here",
               "the reference only knows the configuration the harness itself applied"]

IMEM = 0x100000
SIZES = [8192, 16384, 32768, 65536]


def seeded(seed, n):
    return bytes(fill_byte((seed * 0x10000 + i) & 0xFFFFFFFF) for i in range(n))


# ---------------------------------------------------------------- reference model
class RefBus:
    """Abstract byte store: key -> value; class decides behaviour. Built from the configuration only."""

    def __init__(self, model, cfg):
        self.model = model
        self.cfg = cfg
        self.vals = {}
        ovs = []
        for o in cfg.get("overlays", []):
            ovs.append((o["start"], o["start"] + o["size"] - 1, o["name"], o["kind"], o))
        card = cfg.get("card")
        if model == "py":
            ovs.append((0x40000, 0x4FFFF, "memory_card_slot", "pycard", None))
            if cfg.get("rom"):
                ovs.append((0xC0000, 0xFFFFF, "internal_rom", "rom",
                            {"seed": 99, "size": 0x40000, "start": 0xC0000, "data_len": cfg.get("rom_len", 0x40000)}))
        else:
            if card == "absent":
                ovs.append((0x40000, 0x4FFFF, "memory_card_slot", "absent", None))
            elif isinstance(card, int):
                ovs.append((0x40000, 0x40000 + card - 1, "memory_card", "rscard", None))
        self.ovs = sorted(ovs, key=lambda t: (t[0], t[1], t[2]))

    def canon(self, addr):
        a = addr & 0xFFFFFF
        if self.model == "py":
            if a >= IMEM:
                return ("i", (a - IMEM) & 0xFF)
            return ("e", a & 0xFFFFF)
        if IMEM <= a < IMEM + 0x100:
            return ("i", a - IMEM)
        e = a & 0xFFFFF
        if self.cfg.get("mirror") and 0x80000 <= e <= 0xBFFFF:
            # the mirror applies to the BASE store only; overlays are matched on the logical address
            return ("e", e)
        return ("e", e)

    def base_index(self, e):
        if self.model == "rs" and self.cfg.get("mirror") and 0x80000 <= e <= 0xBFFFF:
            return 0xB8000 + (e & 0x7FFF)
        return e

    def klass(self, key):
        """-> (class, storage key, initial value)"""
        kind, a = key
        if kind == "i":
            return "ram", ("i", a), 0
        for (s, e, name, k, o) in self.ovs:
            if s <= a <= e:
                off = a - s
                if k == "ram":
                    return "ram", ("ov", name, off), 0
                if k == "rom":
                    if off >= o.get("data_len", o["size"]):
                        # read-only window beyond its backing data: reads fall through to the base store, writes never land
                        return "rom", ("e", self.base_index(a)), 0
                    return "rom", ("ov", name, off), fill_byte((o["seed"] * 0x10000 + off) & 0xFFFFFFFF)
                if k == "pycard":
                    c = self.cfg.get("card", 65536)
                    if c == "absent":
                        return "void", None, 0
                    size = c if isinstance(c, int) else 65536
                    if off >= size:
                        return "void", None, 0
                    init = fill_byte((self.cfg.get("card_seed", 7) * 0x10000 + off) & 0xFFFFFFFF) if self.cfg.get("card_loaded") else 0
                    return ("rom" if self.cfg.get("card_readonly") else "ram"), ("card", off), init
                if k == "absent":
                    return "void", None, 0
                if k == "rscard":
                    return "ram", ("card", off), fill_byte((self.cfg.get("card_seed", 7) * 0x10000 + off) & 0xFFFFFFFF)
        b = self.base_index(a)
        if self.model == "rs":
            for (s, e) in self.cfg.get("readonly", []):
                if s <= b <= e:
                    return "rom", ("e", b), 0
        return "ram", ("e", b), 0

    def read(self, addr):
        k, sk, init = self.klass(self.canon(addr))
        if k == "void":
            return 0
        return self.vals.get(sk, init)

    def write(self, addr, v):
        k, sk, init = self.klass(self.canon(addr))
        if k != "ram":
            return None
        old = self.vals.get(sk, init)
        self.vals[sk] = v & 0xFF
        return (sk, old, v & 0xFF)


# ---------------------------------------------------------------- history generation
def boundaries(cfg, model):
    pts = [0, 0x3FFFF, 0x40000, 0x41FFF, 0x42000, 0x43FFF, 0x44000, 0x47FFF, 0x48000, 0x4FFFF, 0x50000, 0x7FFFF, 0x80000,
           0x87FFF, 0x88000, 0xB7FFF, 0xB8000, 0xBFFFF, 0xC0000, 0xFFEFF, 0xFFF00, 0xFFFFF, 0x100000, 0x1000EC, 0x1000FF,
           0x100100, 0x1001FF, 0x1FFFFF, 0x200000, 0xFFFFFF, 0x1000000, 0x1100000, 0x10FFFFF, 0xFFFFFFFF, 0x80000000]
    for o in cfg.get("overlays", []):
        pts += [o["start"], o["start"] + o["size"] - 1, o["start"] + o["size"]]
    if cfg.get("rom_len"):
        e = 0xC0000 + cfg["rom_len"]
        pts += [e - 2, e - 1, e, e + 1, e + 0x1234, 0xFFEFF]
    for (s, e) in cfg.get("readonly", []):
        pts += [s, e, e + 1]
        if cfg.get("mirror") and 0xB8000 <= s <= 0xBFFFF:
            # the mirror aliases of a write-protected cell (0x80000..0xB7FFF -> 0xB8000 + (a & 0x7FFF)) are protected too
            pts += [s - 0x8000 * k for k in (1, 3, 7)] + [e - 0x8000 * k for k in (2, 7)]
    if cfg.get("py_history"):
        pts += [0x1000F0, 0x1000F1, 0x1000F2, 0x1000F0, 0x1000F2, 0xB8040, 0xB805F, 0xB8060, 0x40000, 0x41FFF]
    return pts


def gen_history(r, cfg, model, n, clean=False):
    pts = boundaries(cfg, model)
    ops = []
    written = []
    ref = RefBus(model, cfg)
    tries = 0
    while len(ops) < n and tries < 20 * n:
        tries += 1
        if r.random() < 0.7:
            a = (r.choice(pts) + r.randrange(-3, 4)) & 0xFFFFFFFF
        elif written and r.random() < 0.5:
            a = (r.choice(written) + r.choice((0, 0, 1 << 24, 2 << 24, 0x100, 0x8000, 0x10000, 0x100000))) & 0xFFFFFFFF
        else:
            a = r.randrange(1 << 32)
        bits = r.choice((8, 8, 8, 16, 24))
        if clean:
            # stay away from the mechanisms already listed as known findings => long uninterrupted histories
            regs = {region(a + j, model, cfg) for j in range(bits // 8)}
            if model == "rs" and ("alias_above_1000FF" in regs or straddles(ref, a, bits // 8, model, cfg)):
                continue
            if model == "py" and not cfg.get("rom") and ("external_top_256" in regs):
                continue
        if r.random() < 0.5:
            ops.append(["st", a, bits, r.randrange(1 << bits)])
            written.append(a)
        else:
            ops.append(["ld", a, bits])
    return ops


def configs(model, r):
    out = []
    if model == "py":
        for rom in (False, True, "short"):
            for card in ("absent", 8192, 16384, 32768, 65536, "ro"):
                for ov in ("none", "ram", "rom", "overlap", "ro_nodata"):
                    cfg = {"rom": bool(rom), "card": 32768 if card == "ro" else card, "card_readonly": card == "ro",
                           "card_loaded": card not in ("absent",), "card_seed": 7, "overlays": _ovs(ov, r)}
                    if rom == "short":
                        cfg["rom_len"] = 0x8000      # image shorter than the 256 KiB window
                    out.append(cfg)
        # the same final configurations reached through a history of configuration calls on the same object: a keyboard
        # handler installed and switched off again (F0-F2 are plain internal bytes afterwards), a scratch RAM window added
        # and removed, a card inserted and pulled
        for rom in (False, True):
            for hist in (["kbd_on", "kbd_off"], ["tmp_ram", "tmp_ram_remove"], ["kbd_on", "tmp_ram", "kbd_off", "tmp_ram_remove"],
                         ["card_in", "card_out"], ["kbd_on", "kbd_on", "kbd_off"]):
                out.append({"rom": rom, "card": "absent" if "card_in" in hist else 8192, "card_readonly": False,
                            "card_loaded": "card_in" not in hist, "card_seed": 7, "overlays": _ovs("ram", r),
                            "py_history": hist})
    else:
        for mirror in (False, True):
            for card in (None, "absent", 8192, 16384, 32768, 65536):
                for ov in ("none", "ram", "rom", "overlap", "adjacent"):
                    for ro in (0, 1, 2, 3, 4):
                        ranges = [[0x1000, 0x1007], [0xB8010, 0xB801F]][:ro]
                        if ro == 3:       # the same map listed in descending order
                            ranges = [[0xB8010, 0xB801F], [0x1000, 0x1007]]
                        elif ro == 4:     # unordered, overlapping and adjacent ranges
                            ranges = [[0x50000, 0x5000F], [0x1000, 0x1007], [0xB8010, 0xB801F], [0x1004, 0x1010],
                                      [0x1011, 0x1013]]
                        cfg = {"mirror": mirror, "card": card, "card_seed": 7, "overlays": _ovs(ov, r), "readonly": ranges}
                        out.append(cfg)
            # the same final states reached through a history of slot operations on the same image
            for hist, card in ((["absent"], "present"), (["absent", "present"], 16384), ([8192, "absent"], "present"),
                               (["present", "absent"], "absent"), ([32768], 8192)):
                out.append({"mirror": mirror, "card_history": hist, "card": card, "card_seed": 7, "overlays": _ovs("none", r),
                            "readonly": []})
    return out


def _ovs(kind, r):
    base = r.choice((0x10000, 0x60000, 0x90000, 0xA0000))
    if kind == "none":
        return []
    if kind == "ram":
        return [{"kind": "ram", "start": base + 0x10, "size": 0x40, "seed": 1, "name": "xram"}]
    if kind == "rom":
        return [{"kind": "rom", "start": base + 0x10, "size": 0x40, "seed": 5, "name": "xrom"}]
    if kind == "ro_nodata":   # a read-only window without backing data (Python only): nothing behind it may ever change
        return [{"kind": "rom", "start": base + 0x10, "size": 0x40, "seed": 5, "name": "xro", "data_len": 0}]
    if kind == "adjacent":     # two overlays that TOUCH (and a third nested inside the first)
        return [{"kind": "ram", "start": base + 0x10, "size": 0x40, "seed": 1, "name": "xram"},
                {"kind": r.choice(("ram", "rom")), "start": base + 0x50, "size": 0x40, "seed": 5, "name": "xnext"},
                {"kind": "ram", "start": base + 0x20, "size": 0x08, "seed": 9, "name": "xinner"}]
    return [{"kind": "ram", "start": base + 0x10, "size": 0x40, "seed": 1, "name": "xram"},
            {"kind": "rom", "start": base + 0x30, "size": 0x40, "seed": 5, "name": "xrom"}]


# ---------------------------------------------------------------- Python model run
def build_py(cfg):
    from pce500.memory import PCE500Memory
    m = PCE500Memory()
    if cfg.get("rom"):
        m.load_rom(seeded(99, cfg.get("rom_len", 0x40000)))
    for h in cfg.get("py_history", []):
        if h == "kbd_on":
            m.set_keyboard_handler(lambda a, pc=None: 0xEE, lambda a, v, pc=None: None)
        elif h == "kbd_off":
            m.set_keyboard_handler(lambda a, pc=None: 0xEE, lambda a, v, pc=None: None, enable_overlay=False)
        elif h == "tmp_ram":
            m.add_ram(0xB8040, 0x20, "scratch")
        elif h == "tmp_ram_remove":
            m.remove_overlay("scratch")
        elif h == "card_in":
            m.load_memory_card(seeded(3, 8192), 8192, writable=True)
        elif h == "card_out":
            m.set_memory_card_present(False)
    c = cfg.get("card")
    if c == "absent":
        m.set_memory_card_present(False)
    elif isinstance(c, int):
        m.load_memory_card(seeded(cfg.get("card_seed", 7), c), c, writable=not cfg.get("card_readonly"))
    for o in cfg.get("overlays", []):
        if o["kind"] == "ram":
            m.add_ram(o["start"], o["size"], o["name"])
        elif o.get("data_len") == 0:
            from pce500.memory_bus import MemoryOverlay
            m.add_overlay(MemoryOverlay(start=o["start"], end=o["start"] + o["size"] - 1, name=o["name"], data=None,
                                        read_only=True))
        else:
            m.add_rom(o["start"], seeded(o["seed"], o["size"]), o["name"])
    return m


def py_backing(m):
    arrs = {"external": m.external_memory, "card": m._card_data}
    for ov in m.overlays:
        if ov.data is not None:
            arrs["ov:" + ov.name] = ov.data
    return arrs


def run_py(res, cfg, ops, r, clean=False):
    m = build_py(cfg)
    ref = RefBus("py", cfg)
    shadow = {k: bytes(v) for k, v in py_backing(m).items()}
    crcs = {k: zlib.crc32(v) for k, v in shadow.items()}
    case = {"model": "py", "config": cfg, "ops": ops[:200]}
    ram_roundtrip = False
    for i, op in enumerate(ops):
        a, bits = op[1], op[2]
        nb = bits // 8
        if op[0] == "ld":
            got = m.read_bytes(a, nb)
            want = sum(ref.read(a + j) << (8 * j) for j in range(nb))
            res.monitor("py_read_oracle")
            if got != want:
                kinds = sorted({ref.klass(ref.canon(a + j))[0] + ":" + ref.canon(a + j)[0] for j in range(nb)})
                res.violation({"clause": "read_value", "model": "py", "where": region(a, "py", cfg), "bits": bits,
                               "rom": rom_tag(cfg)}, case,
                              {"step": i, "addr": hex(a), "got": got, "want": want, "classes": kinds})
                return
            if nb > 1:
                parts = sum(m.read_byte(a + j) << (8 * j) for j in range(nb))
                res.monitor("le_composition")
                if parts != got:
                    res.violation({"clause": "wide_load_not_byte_composition", "model": "py", "where": region(a, "py", cfg)}, case,
                                  {"step": i, "addr": hex(a), "wide": got, "bytes": parts})
                    return
        else:
            v = op[3]
            changes = []
            for j in range(nb):
                ch = ref.write(a + j, (v >> (8 * j)) & 0xFF)
                if ch and ch[1] != ch[2]:
                    changes.append(ch)
            m.write_bytes(nb, a, v)
            # conservation over ALL backing arrays
            res.monitor("py_conservation")
            nchanged = 0
            for k, arr in py_backing(m).items():
                c = zlib.crc32(arr)
                if c != crcs.get(k):
                    old = shadow.get(k, b"")
                    new = bytes(arr)
                    nchanged += sum(1 for x, y in zip(old, new) if x != y) if len(old) == len(new) else 999
                    shadow[k] = new
                    crcs[k] = c
            distinct_keys = len({c[0] for c in changes})
            if nchanged != distinct_keys:
                res.violation({"clause": "store_changed_other_bytes", "model": "py", "where": region(a, "py", cfg), "bits": bits,
                               "rom": rom_tag(cfg)},
                              case, {"step": i, "addr": hex(a), "backing_bytes_changed": nchanged,
                                     "reference_locations_changed": distinct_keys})
                return
            # alias + twin probes
            probes = [a + (1 << 24), a + (5 << 24), (a & 0xFFFFFF)]
            key = ref.canon(a)
            if key[0] == "i":
                probes += [IMEM + 0x100 + key[1], IMEM + 0x7700 + key[1]]
                if not clean:
                    probes.append(0xFFF00 + key[1])
            else:
                if key[1] >= 0xFFF00:
                    probes.append(IMEM + key[1] - 0xFFF00)
            for p in probes:
                res.monitor("alias_probe")
                g = m.read_byte(p)
                w = ref.read(p)
                if g != w:
                    res.violation({"clause": "alias_or_twin_read", "model": "py", "where": region(p, "py", cfg),
                                   "rom": rom_tag(cfg)}, case,
                                  {"step": i, "stored_at": hex(a), "probe": hex(p), "got": g, "want": w})
                    return
            if changes:
                ram_roundtrip = True
    return ram_roundtrip


def straddles(ref, a, nb, model, cfg):
    """True when the bytes of a wide access fall into different classes/regions (or cross a space boundary)."""
    if nb == 1:
        return False
    ks = set()
    for j in range(nb):
        key = ref.canon(a + j)
        ks.add((key[0], ref.klass(key)[0], ref.klass(key)[1][0] if ref.klass(key)[1] else None,
                region(a + j, model, cfg)))
    lo = a & 0xFFFFFF
    hi = (a + nb - 1) & 0xFFFFFF
    e = lo & 0xFFFFF
    mirror_block_edge = bool(cfg.get("mirror")) and 0x80000 <= e <= 0xBFFFF and (e & 0x7FFF) + nb > 0x8000
    return len(ks) > 1 or hi < lo or (lo < IMEM <= hi) or (lo < IMEM + 0x100 <= hi) or mirror_block_edge


def rom_tag(cfg):
    """False | True (full 256 KiB image) | "short" (image shorter than the window: the base store shows through)."""
    if not cfg.get("rom"):
        return False
    return "short" if cfg.get("rom_len", 0x40000) < 0x40000 else True


def region(a, model, cfg):
    """Coarse region label of an address (for finding keys)."""
    x = a & 0xFFFFFF
    if model == "py" and x < IMEM and 0xFFF00 - 3 <= (x & 0xFFFFF) < 0xFFF00:
        return "external_top_256"    # a wide access starting just below reaches into the top 256 bytes
    if model == "py":
        if x >= IMEM:
            return "internal" if x < IMEM + 0x100 else "internal_alias_above_1000FF"
        e = x & 0xFFFFF
    else:
        if IMEM <= x < IMEM + 0x100:
            return "internal"
        e = x & 0xFFFFF
        if x >= IMEM + 0x100:
            return "alias_above_1000FF"
    for o in cfg.get("overlays", []):
        if o["start"] - 3 <= e <= o["start"] + o["size"] + 2:
            return "overlay_edge" if (e < o["start"] + 3 or e > o["start"] + o["size"] - 4) else "overlay"
    for (s, en) in cfg.get("readonly", []) if model == "rs" else []:
        if s - 3 <= e <= en + 3:
            return "readonly_edge" if (e < s + 3 or e > en - 3) else "readonly"
    if 0x40000 <= e <= 0x4FFFF:
        return "card_window"
    if e >= 0xFFF00:
        return "external_top_256"
    if 0x80000 <= e <= 0xBFFFF:
        return "mirror_window"
    if e >= 0xC0000:
        return "rom_window"
    return "external"


# ---------------------------------------------------------------- Rust model run
def run_rs_batch(res, jobs):
    from .. import rust
    rr = rust.run("mem", [{"id": i, "config": cfg, "ops": ops} for i, (cfg, ops) in enumerate(jobs)])
    outs = []
    for (cfg, ops), rout in zip(jobs, rr):
        ref = RefBus("rs", cfg)
        case = {"model": "rs", "config": cfg, "ops": ops[:200]}
        ok_rt = False
        for i, (op, o) in enumerate(zip(ops, rout["out"])):
            a, bits = op[1], op[2]
            nb = bits // 8
            if op[0] == "ld":
                want = sum(ref.read(a + j) << (8 * j) for j in range(nb))
                res.monitor("rs_read_oracle")
                if nb > 1:
                    res.monitor("le_composition")
                if o.get("v") != want:
                    sig_ = {"clause": "read_value" if nb == 1 else "wide_load_not_byte_composition", "model": "rs",
                            "where": region(a, "rs", cfg), "bits": bits, "straddle": straddles(ref, a, nb, "rs", cfg)}
                    if nb > 1:
                        # every byte of the load lies inside SOME overlay (two overlays meeting, nested, overlapping): the
                        # overlay reader composes such loads byte by byte - not the all-or-nothing fallback of the finding
                        sig_["all_bytes_in_overlays"] = all(
                            any(ov["start"] <= ((a + j) & 0xFFFFF) < ov["start"] + ov["size"] for ov in cfg.get("overlays", []))
                            for j in range(nb)) and (a & 0xFFFFFF) < IMEM
                    res.violation(sig_, case,
                                  {"step": i, "addr": hex(a), "got": o.get("v"), "want": want})
                    break
            else:
                v = op[3]
                changes = []
                for j in range(nb):
                    ch = ref.write(a + j, (v >> (8 * j)) & 0xFF)
                    if ch and ch[1] != ch[2]:
                        changes.append(ch)
                res.monitor("rs_conservation")
                got = sorted((c[0] if c[0] in ("external", "internal") else "ov", c[1], c[3]) for c in o["changed"])
                want = []
                for (sk, old, new) in changes:
                    if sk[0] == "i":
                        want.append(("internal", sk[1], new))
                    elif sk[0] == "e":
                        want.append(("external", sk[1], new))
                    else:
                        want.append(("ov", sk[-1], new))
                # keep only the last change per storage key
                lastw = {}
                for w in want:
                    lastw[(w[0], w[1])] = w
                if got != sorted(lastw.values()):
                    res.violation({"clause": "store_effect", "model": "rs", "where": region(a, "rs", cfg), "bits": bits,
                                   "straddle": straddles(ref, a, nb, "rs", cfg)}, case,
                                  {"step": i, "addr": hex(a), "value": v, "backing_changes": got[:6],
                                   "reference_changes": sorted(lastw.values())[:6]})
                    break
                if changes:
                    ok_rt = True
        outs.append(ok_rt)
    return outs


def run_cpu_path(res, r, n):
    """Rust CPU-facing bus (RuntimeBus inside CoreRuntime::step) exercised by tiny programs."""
    from .. import rust
    jobs = []
    for _ in range(n):
        addr = r.choice((0x20000, 0xB8100, 0x3FFFE, 0x50000 - 1, 0xBFFFE)) + r.randrange(4)
        val = r.randrange(1 << 24)
        n8 = r.randrange(0x10, 0xE0)
        jobs.append({"addr": addr, "val": val, "n": n8})
    # wide stores into internal memory (every offset 0xD0..0xFD incl. the keyboard ports F0-F2, plus random ones)
    for bits in (16, 24):
        for n_ in list(range(0xD0, 0x100 - bits // 8 + 1)) + [r.randrange(0, 0xD0) for _ in range(8)]:
            if n_ <= 0xFC and n_ + bits // 8 - 1 >= 0xFB:
                continue      # IMR/ISR: the byte-wise reference run could take an interrupt between its stores
            jobs.append({"imem_n": n_, "val": r.randrange(1 << 24) | 0x010101, "bits": bits})
    # wide CPU stores across the edges of the two LCD windows: the bytes outside the window are plain RAM
    for base in (0x2000, 0x3000, 0xA000, 0xB000):
        for d in (-2, -1):
            for bits in (16, 24):
                jobs.append({"lcd_edge": base + d, "val": r.randrange(1 << 24) | 0x010101, "bits": bits})
    # the crate's own PC-E500 loaders: ROM window images and full system images of several lengths
    for which, ln in (("window", 0x40000), ("window", 0x8000), ("window", 0x100000), ("image", 0x100000), ("image", 0x40000),
                      ("image", 0x100100), ("image", 0x8000)):
        jobs.append({"loader": which, "len": ln})
    rr = rust.run("cpubus", jobs)
    for j, o in zip(jobs, rr):
        res.monitor("cpu_path_loader" if "loader" in j else ("cpu_path_imem" if "imem_n" in j else
                                                              ("cpu_path_lcd_edge" if "lcd_edge" in j else "cpu_path")))
        res.evaluations += 1
        if o.get("error") or not o.get("ok"):
            res.violation({"clause": "cpu_store_load", "model": "rs"}, j, o)


def plan(tier, seed):
    specs = []
    idx = 0
    parts = 8 if tier == "quick" else 32
    for model in ("py", "rs"):
        for p in range(parts):
            specs.append({"kind": model, "part": p, "parts": parts, "seed": seed, "tier": tier, "idx": idx}); idx += 1
    specs.append({"kind": "cpu", "seed": seed, "tier": tier, "idx": idx}); idx += 1
    return specs


def run_shard(spec) -> Result:
    res = Result()
    r = rng(spec["seed"], "c11", spec["idx"])
    tier = spec["tier"]
    if spec["kind"] == "cpu":
        run_cpu_path(res, r, 200 if tier == "quick" else 5000)
        return res
    model = spec["kind"]
    cfgs = configs(model, r)
    total = (300 if tier == "quick" else 2400)
    per_part = max(1, total // spec["parts"])
    nops = 200 if tier == "quick" else 600
    jobs = []
    for k in range(per_part):
        cfg = cfgs[(spec["part"] + k * spec["parts"]) % len(cfgs)]
        clean = (k % 5) < 3
        ops = gen_history(r, cfg, model, r.randrange(nops // 2, nops), clean=clean)
        jobs.append((cfg, ops, clean))
    if model == "py":
        for cfg, ops, clean in jobs:
            res.evaluations += 1
            res.count("py_ops_planned", len(ops))
            ok = run_py(res, cfg, ops, r, clean=clean)
            if ok:
                res.nontrivial("py", repr(cfg), len(ops), ops[0][1])
            res.table("py_configs", f"rom={cfg['rom']},card={cfg['card']},ro={cfg.get('card_readonly')}")
    else:
        oks = run_rs_batch(res, [(c_, o_) for c_, o_, _ in jobs])
        for (cfg, ops, clean), ok in zip(jobs, oks):
            res.evaluations += 1
            if ok:
                res.nontrivial("rs", repr(cfg), len(ops), ops[0][1])
            res.table("rs_configs", f"mirror={cfg['mirror']},card={cfg['card']},ro={len(cfg['readonly'])}")
    if jobs:
        res.sample({"model": model, "config": jobs[0][0], "ops": jobs[0][1][:6]})
    return res


def replay(case):
    return []
