"""C05 - branch metadata matches where execution goes; call/return and IR/RETI are inverse."""
from __future__ import annotations

from ..core import Result, rng
from .. import enc

PROPERTY = "C05"
LEVEL = "exploration"
NEEDS = ()
EXHAUSTIVE = {"quick": False, "thorough": False}
REQUIRED_MONITORS = ["branch_target_oracle", "fallthrough_oracle", "call_return_inverse"]
RULE = ("(1) branch/call/return opcodes 01-07,10-1F,FE,FF x all prefixes x an address grid incl. page boundaries x "
        "displacement/target boundary values x all 4 (C,Z) values; (2) EVERY accepted structural head (quick: 14 second "
        "bytes, thorough: all 256) executed in 2 states: no reported branch => PC == addr+len (IR excepted); "
        "(3) generated CALL..RET, CALLF..RETF, IR..RETI programs with random stack-neutral callee bodies: resume PC, S "
        "(and F, IMR for RETI) restored. Oracle: InstructionInfo.branches from the real get_instruction_info vs PC "
        "observed on the real Emulator, modulo 2^20. distinct_nontrivial = distinct (opcode,prefix,address,operand,flags) "
        "branch cases + distinct programs.")
ASSUMPTIONS = ["binja_test_mocks InstructionInfo/BranchType stand in for Binary Ninja",
               "HALT/OFF/WAIT fall through in the CPU core"]

GRID = [0, 0x00FE, 0xFFFD, 0xFFFE, 0xFFFF, 0x10000, 0x1FFFD, 0xEFFFF, 0xFFFF0, 0xFFFFD, 0xFFFFF, 0x12345, 0x7FFFE]
BRANCH_OPS = [0x01, 0x02, 0x03, 0x04, 0x05, 0x06, 0x07] + list(range(0x10, 0x20)) + [0xFE, 0xFF]
COND = {"Z": lambda c, z: z == 1, "NZ": lambda c, z: z == 0, "C": lambda c, z: c == 1, "NC": lambda c, z: c == 0}
_arch = None


def _setup():
    global _arch
    if _arch is None:
        from ..pyside import FlatMem  # noqa: F401
        from sc62015.arch import SC62015
        _arch = SC62015()
    return _arch


def cond_of(mn: str):
    for suf in ("NZ", "NC", "Z", "C"):
        if mn.startswith(("JP", "JR")) and mn[2:] == suf:
            return suf
    return None


_LONG = {"n": 0}


def check_case(res, case):
    """case as in states (bytes, addr, regs, mem). Runs 4 flag variants. Returns violations."""
    from .. import pyexec
    arch = _setup()
    buf = bytes.fromhex(case["bytes"])
    addr = case["addr"]
    viol = []

    def v(sig, detail):
        viol.append({"sig": sig, "case": case, "detail": detail})

    try:
        info = arch.get_instruction_info(buf, addr)
    except BaseException as e:  # noqa: BLE001
        v({"clause": "info_raises", "exc": type(e).__name__}, str(e)[:200])
        return viol, None
    if info is None:
        return viol, None
    L = info.length
    branches = [(b.type.name, None if b.target is None else int(b.target)) for b in info.branches]
    nxt = (addr + L) & 0xFFFFF
    outcomes = {}
    mn = None
    for (c, z) in ((0, 0), (0, 1), (1, 0), (1, 1)):
        cs = dict(case)
        cs["regs"] = dict(case["regs"], FC=c, FZ=z)
        obs = pyexec.run_case(cs)
        if "exc" in obs:
            if str(obs.get("name", "")).startswith("???"):
                return viol, None
            v({"clause": "execution_raises", "exc": obs["exc"].split(":")[1]}, obs["exc"])
            return viol, None
        mn = obs["name"]
        outcomes[(c, z)] = obs["PC"] & 0xFFFFF
    opc = case.get("opc")
    sigbase = {"op": f"{opc:02X}" if opc is not None else "--", "pre": case.get("preb") is not None}
    types = [t for t, _ in branches]
    # ---- one long-lived emulator: the same bytes are first executed at ANOTHER address (other page), then here. Where
    #      execution goes must not depend on that (lifted IL / decoded instructions remembered per encoding, a low-power flag
    #      left by an earlier HALT/OFF of the sweep, ...): same PC as on the fresh emulator
    if res is not None and (branches or _LONG["n"] % 4 == 0):
        from .c07 import HistoryCore
        core = _LONG.get("core")
        if core is None:
            core = _LONG["core"] = HistoryCore()
        cs = dict(case, regs=dict(case["regs"], FC=1, FZ=0))
        other = dict(cs, addr=(addr ^ 0x20000) & 0xFFFFF)
        core.run(other)
        again = core.run(cs)
        res.monitor("long_lived_emulator_same_target")
        if "exc" in again or (again["PC"] & 0xFFFFF) != outcomes[(1, 0)]:
            v(dict(sigbase, clause="target_depends_on_history"),
              {"fresh_pc": outcomes[(1, 0)], "long_lived_pc": again.get("PC"), "exc": again.get("exc"),
               "same_bytes_executed_before_at": other["addr"]})
    _LONG["n"] += 1
    if not branches:
        if res:
            res.monitor("fallthrough_oracle")
        if mn != "IR":
            bad = {k: pc for k, pc in outcomes.items() if pc != nxt}
            if bad:
                v(dict(sigbase, clause="no_branch_reported_but_leaves"), {"next": nxt, "went": sorted(set(bad.values()))})
    else:
        if res:
            res.monitor("branch_target_oracle")
        cond = cond_of(mn)
        for t, tgt in branches:
            if tgt is None:
                continue
            tgt &= 0xFFFFF
            if t in ("UnconditionalBranch", "CallDestination"):
                bad = {k: pc for k, pc in outcomes.items() if pc != tgt}
                if bad:
                    v(dict(sigbase, clause="target_mismatch", btype=t), {"reported": tgt, "went": sorted(set(bad.values()))})
            elif t in ("TrueBranch", "FalseBranch"):
                if cond is None:
                    v(dict(sigbase, clause="conditional_branch_on_unconditional_mnemonic"), {"mn": mn})
                    continue
                want_true = t == "TrueBranch"
                bad = {k: pc for k, pc in outcomes.items() if COND[cond](*k) == want_true and pc != tgt}
                if bad:
                    v(dict(sigbase, clause="target_mismatch", btype=t), {"reported": tgt, "went": sorted(set(bad.values()))})
        # every observed outcome must be explained by some reported branch
        explained = {tg & 0xFFFFF for _, tg in branches if tg is not None}
        open_ended = any(tg is None for _, tg in branches)
        if not open_ended:
            unexplained = {pc for pc in outcomes.values() if pc not in explained}
            if unexplained:
                v(dict(sigbase, clause="outcome_not_reported"), {"reported": sorted(explained), "went": sorted(unexplained)})
    return viol, (mn, types)


def plan(tier, seed):
    specs = []
    idx = 0
    for s in enc.plan_heads(tier):
        s.update(kind="heads", seed=seed, tier=tier, idx=idx)
        specs.append(s)
        idx += 1
    n = 4 if tier == "quick" else 16
    for i in range(n):
        specs.append({"kind": "branches", "part": i, "parts": n, "seed": seed, "tier": tier, "idx": idx}); idx += 1
    for i in range(n):
        specs.append({"kind": "programs", "part": i, "parts": n, "seed": seed, "tier": tier, "idx": idx}); idx += 1
    return specs


BODY_POOL = [bytes([0x00]), bytes([0x08, 0x5A]), bytes([0x40, 0x01]), bytes([0x4F, 0x5F]), bytes([0x28, 0x38]),
             bytes([0x6C, 0x00]), bytes([0xA0, 0x30]), bytes([0x2A, 0x3A]), bytes([0x97]), bytes([0x9F]),
             bytes([0x2C, 0x3C]), bytes([0x64, 0x0F]), bytes([0x0A, 0x34, 0x12]),
             bytes([0x0B, 0x02, 0x00, 0xEF]), bytes([0x00, 0xEF])]      # ... and WAIT (after MV I,2 / after a NOP)


def run_program(res, r, kind):
    """CALL/RET, CALLF/RETF or IR/RETI with a random stack-neutral body (possibly nested)."""
    from ..pyside import FlatMem
    from sc62015.pysc62015.emulator import Emulator, RegisterName
    page = r.choice((0x10000, 0x30000, 0xE0000, 0x00000))
    base = page + r.randrange(0x100, 0xF000)
    t = page + r.randrange(0x100, 0xF000)
    while abs(t - base) < 0x80:
        t = page + r.randrange(0x100, 0xF000)
    if kind == "far":
        t = r.choice((0x20000, 0x40000, 0xC0000)) + r.randrange(0x100, 0xF000)
    mem = FlatMem(log=False)
    if kind == "near":
        call = bytes([0x04, t & 0xFF, (t >> 8) & 0xFF])
        ret = bytes([0x06])
    elif kind == "far":
        call = bytes([0x05, t & 0xFF, (t >> 8) & 0xFF, (t >> 16) & 0x0F])
        ret = bytes([0x07])
    else:
        call = bytes([0xFE])
        ret = bytes([0x01])
        mem.load_bytes(0xFFFFA, bytes([t & 0xFF, (t >> 8) & 0xFF, (t >> 16) & 0x0F]))
    # any instruction may carry a PRE byte (it then counts towards the instruction's length): calls and returns too
    from ..enc import PREFIXES
    if r.random() < 0.3:
        call = bytes([r.choice(PREFIXES[1:])]) + call
    if r.random() < 0.2:
        ret = bytes([r.choice(PREFIXES[1:])]) + ret
    body = b""
    nested = None
    for _ in range(r.randrange(0, 7)):
        if r.random() < 0.15 and nested is None:
            tpage = t & 0xF0000
            nt = tpage + ((t + 0x200 + r.randrange(0x100)) & 0xFFFF)
            nested = nt
            body += bytes([0x04, nt & 0xFF, (nt >> 8) & 0xFF])
        else:
            body += r.choice(BODY_POOL)
    mem.load_bytes(base, call + bytes([0x00, 0x00]))
    mem.load_bytes(t, body + ret)
    if nested is not None:
        mem.load_bytes(nested, r.choice(BODY_POOL) + bytes([0x06]))
    emu = Emulator(mem, reset_on_init=False)
    S0 = 0x50000 + r.randrange(0x100, 0xF00)
    U0 = 0x48000 + r.randrange(0x100, 0xF00)
    F0 = r.randrange(4)
    IMR0 = r.randrange(256)
    emu.regs.set(RegisterName.S, S0)
    emu.regs.set(RegisterName.U, U0)
    emu.regs.set(RegisterName.F, F0)
    mem.poke(0x100000 + 0xFB, IMR0)
    for off in (0xEC, 0xED, 0xEE):
        mem.poke(0x100000 + off, r.choice((0, 0, r.randrange(256))))
    emu.regs.set(RegisterName.PC, base)
    resume = (base + len(call)) & 0xFFFFF
    steps = 0
    case = {"kind": kind, "base": base, "t": t, "call": call.hex(), "body": body.hex(), "S": S0, "F": F0, "IMR": IMR0}
    try:
        emu.execute_instruction(base)
        steps = 1
        while emu.regs.get(RegisterName.PC) != resume and steps < 64:
            emu.execute_instruction(emu.regs.get(RegisterName.PC))
            steps += 1
    except BaseException as e:  # noqa: BLE001
        res.violation({"clause": "program_raises", "kind": kind}, case, f"{type(e).__name__}:{str(e)[:120]}")
        return
    res.monitor("call_return_inverse")
    res.evaluations += 1
    res.nontrivial("prog", kind, base, t, body.hex())
    fields = []
    if emu.regs.get(RegisterName.PC) != resume:
        fields.append("resume_pc")
    if emu.regs.get(RegisterName.S) != S0:
        fields.append("S")
    if kind == "irq":
        if (emu.regs.get(RegisterName.F) & 3) != F0:
            fields.append("F")
        if mem.peek(0x100000 + 0xFB) != IMR0:
            fields.append("IMR")
    if fields:
        res.violation({"clause": "call_return_not_inverse", "kind": kind, "fields": fields}, case,
                      {"pc": emu.regs.get(RegisterName.PC), "resume": resume, "S": emu.regs.get(RegisterName.S),
                       "F": emu.regs.get(RegisterName.F), "IMR": mem.peek(0x100000 + 0xFB), "steps": steps})
    if len(res.samples) < 3:
        res.sample(case)


def run_shard(spec) -> Result:
    from .. import states
    res = Result()
    r = rng(spec["seed"], "c05", spec["idx"])
    kind = spec["kind"]

    def handle(case, key):
        res.evaluations += 1
        viol, info = check_case(res, case)
        if info is not None and info[1]:
            res.nontrivial(key)
            res.table("branch_types", "+".join(sorted(set(info[1]))))
        for x in viol:
            res.violation(x["sig"], _slim(x["case"]), x["detail"])
        if info is not None and info[1] and len(res.samples) < 3:
            res.sample({"bytes": case["bytes"][:2 * case["len"]], "addr": case["addr"], "mn": info[0], "branches": info[1]})

    if kind == "heads":
        for (pfx, op, b2) in enc.shard_heads(spec):
            for k in range(1 if spec["tier"] == "quick" else 2):
                addr = None if r.random() < 0.7 else r.choice(GRID)
                case = states.build_case(r, pfx, op, b2, "dist", addr=addr)
                if case is None:
                    break
                handle(case, (pfx, op, b2, case["addr"]))
    elif kind == "branches":
        combos = [(op, pfx) for op in BRANCH_OPS for pfx in enc.PREFIXES]
        for i, (op, pfx) in enumerate(combos):
            if i % spec["parts"] != spec["part"]:
                continue
            for addr in GRID + [r.randrange(1 << 20) for _ in range(3 if spec["tier"] == "quick" else 12)]:
                b2s = [0, 1, 2, 0x7F, 0x80, 0xFF, 0x04, 0x05, 0x06, 0x07, 0x34]
                for b2 in b2s:
                    for rep in range(1 if spec["tier"] == "quick" else 3):
                        case = states.build_case(r, pfx, op, b2, "dist", addr=addr, small_payload=(rep == 0))
                        if case is None:
                            continue
                        handle(case, (pfx, op, b2, addr, rep))
        # relative jumps: EVERY displacement byte (a displacement that happens to equal some opcode byte, 0x00/0xFF ends)
        for j, op in enumerate((0x12, 0x13, 0x18, 0x19, 0x1A, 0x1B, 0x1C, 0x1D, 0x1E, 0x1F)):
            if j % spec["parts"] != spec["part"]:
                continue
            for b2 in range(256):
                for pfx in (None, r.choice(enc.PREFIXES)):
                    case = states.build_case(r, pfx, op, b2, "dist", addr=r.choice((None, 0x00FE, 0x1FFFD, 0x12345)))
                    if case is not None:
                        handle(case, (pfx, op, b2, case["addr"], "disp"))
    else:
        n = 600 if spec["tier"] == "quick" else 8000
        for i in range(n // spec["parts"]):
            run_program(res, r, r.choice(("near", "far", "irq")))
    return res


def _slim(case):
    return {k: case.get(k) for k in ("bytes", "addr", "regs", "mem", "flavour", "pfx", "op", "b2", "mn", "opc", "preb", "len")}


def replay(case):
    if "kind" in case:
        return []
    viol, _ = check_case(None, case)
    return [{"sig": x["sig"], "detail": x["detail"]} for x in viol]
