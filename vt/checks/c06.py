"""C06 - the Rust LLAMA core and the Python core agree on every instruction."""
from __future__ import annotations

from ..core import Result, rng
from .. import enc

PROPERTY = "C06"
LEVEL = "exploration"
NEEDS = ("rust",)
EXHAUSTIVE = {"quick": False, "thorough": False}
REQUIRED_MONITORS = ["differential_single", "differential_lockstep"]
RULE = ("every encoding the Python decoder accepts (structural heads; quick: 14 second bytes, thorough: all 256) x states "
        "{distinguishing, boundary, random} is executed once on the Python Emulator and once on the real Rust "
        "LlamaExecutor over identical flat sparse memories (same background fill, same canonicalisation); compared: "
        "consumed length, BA,I,X,Y,U,S,PC, C,Z, low-power state, and the final value of every address either core "
        "wrote; Rust Err/panic on an accepted encoding is a mismatch. Plus seeded programs run in lockstep with "
        "per-step comparison. distinct_nontrivial = distinct (prefix,opcode,second byte,flavour) compared cases + programs.")
ASSUMPTIONS = ["only encodings the Python decoder accepts are compared (Rust deliberately accepts more)",
               "TEMP registers, call bookkeeping and F bits 2-7 are not architectural and are compared separately",
               "dev-profile Rust build with overflow checks and debug assertions; panics are caught per case"]

BATCH = 400


def plan(tier, seed):
    specs = []
    idx = 0
    for s in enc.plan_heads(tier):
        s.update(kind="heads", seed=seed, tier=tier, idx=idx)
        specs.append(s)
        idx += 1
    n = 8 if tier == "quick" else 32
    for i in range(n):
        specs.append({"kind": "programs", "part": i, "parts": n, "seed": seed, "tier": tier, "idx": idx})
        idx += 1
    # block instructions with counts beyond one byte / beyond a few thousand iterations (the counter is 16 bits wide)
    for i in range(4 if tier == "quick" else 16):
        specs.append({"kind": "bigcount", "part": i, "seed": seed, "tier": tier, "idx": idx})
        idx += 1
    for i in range(1 if tier == "quick" else 4):
        specs.append({"kind": "izero", "part": i, "seed": seed, "tier": tier, "idx": 8000 + i})
    return specs


def compare(case, obs, rres):
    """-> (fields, detail) of the disagreement between Python obs and Rust result (one step)."""
    st = rres["steps"][0]
    fields = []
    det = {}
    if "panic" in st:
        return ["rust_panic"], {"panic": st["panic"][:200]}
    if "err" in st:
        return ["rust_err"], {"err": st["err"]}
    if st.get("len") != obs["length"]:
        fields.append("len")
        det["len"] = (obs["length"], st.get("len"))
    for n in ("BA", "I", "X", "Y", "U", "S"):
        if obs["regs"][n] != st["regs"][n]:
            fields.append(n)
            det[n] = (obs["regs"][n], st["regs"][n])
    if (obs["PC"] & 0xFFFFF) != (st["pc"] & 0xFFFFF):
        fields.append("PC")
        det["PC"] = (obs["PC"], st["pc"])
    if obs["FC"] != (st["f"] & 1):
        fields.append("C")
        det["C"] = (obs["FC"], st["f"] & 1)
    if obs["FZ"] != ((st["f"] >> 1) & 1):
        fields.append("Z")
        det["Z"] = (obs["FZ"], (st["f"] >> 1) & 1)
    if (obs["F"] & 0xFC) != (st["f"] & 0xFC):
        det["F_hi_note"] = (obs["F"], st["f"])   # F bits 2-7 are not C/Z: recorded, not judged
    if obs["halted"] != (st["power"] != "running"):
        fields.append("power")
        det["power"] = (obs["halted"], st["power"])
    pyfinal = {a: v for a, v in obs["final"].items()}
    rfinal = {int(a): v for a, v in rres["final"].items()}
    mem = obs["mem"]
    bad = []
    from ..pyside import fill_byte
    pre = {int(k): v for k, v in case.get("mem", {}).items()}
    code = bytes.fromhex(case["bytes"])

    def rust_value(a):
        if a in rfinal:
            return rfinal[a]
        if a in pre:
            return pre[a]
        off = (a - case["addr"]) & 0xFFFFFF
        if off < len(code):
            return code[off]
        return fill_byte(a)
    for a in sorted(set(pyfinal) | set(rfinal)):
        pv = mem.peek(a)
        rv = rust_value(a)
        if pv != rv:
            bad.append((f"{a:06X}", pv, rv))
    if bad:
        fields.append("mem")
        det["mem"] = bad[:8]
    return fields, det


def run_batch(res, batch):
    from .. import pyexec, rust, judge
    from .c03 import _slim
    rr = rust.run("exec", [dict(_slim(c), id=i) for i, c in enumerate(batch)])
    for case, rres in zip(batch, rr):
        obs = pyexec.run_case(case)
        res.evaluations += 1
        if "exc" in obs:
            if str(obs.get("name", "")).startswith("???"):
                res.count("unknown_instruction_skipped")
                continue
            res.violation({"clause": "python_raises", "op": f"{case['opc']:02X}"}, _slim(case), obs["exc"])
            continue
        res.monitor("differential_single")
        res.nontrivial(case["pfx"], case["op"], case["b2"], case["flavour"])
        fields, det = compare(case, obs, rres)
        res.table("compared_by_flavour", case["flavour"])
        if "F_hi_note" in det:
            res.count("f_upper_bits_differ_not_judged")
        if fields:
            utags, mn, ops = judge.undoc_tags(case, obs["tokens"])
            sig = {"clause": "cores_disagree", "op": f"{case['opc']:02X}",
                   "tags": sorted(judge.case_tags(case, ops) + utags), "fields": sorted(fields)}
            from ..pyside import tokens_text
            det["text"] = tokens_text(obs["tokens"])
            res.violation(sig, _slim(case), det)
        elif len(res.samples) < 3:
            from ..pyside import tokens_text
            res.sample({"bytes": case["bytes"][:2 * case["len"]], "text": tokens_text(obs["tokens"]),
                        "flavour": case["flavour"], "agree_on": {"BA": obs["regs"]["BA"], "PC": obs["PC"],
                                                               "writes": len(obs["final"])}})


def run_shard(spec) -> Result:
    from .. import states
    res = Result()
    r = rng(spec["seed"], "c06", spec["idx"])
    if spec["kind"] == "heads":
        batch = []
        flavours = ("dist", "boundary", "random")
        for (pfx, op, b2) in enc.shard_heads(spec):
            for fl in flavours:
                # the "dist" flavour is kept clear of the two widest known mechanisms (ignored address nibble set, upper
                # F bits set) so that every head has at least one case in which any OTHER divergence is visible
                case = states.build_case(r, pfx, op, b2, fl, small_payload=(fl == "dist"),
                                         canonical=True if fl == "dist" else None)
                if case is None:
                    res.count("rejected")
                    break
                if fl == "dist":
                    case["regs"]["FHI"] = 0
                batch.append(case)
            if len(batch) >= BATCH:
                run_batch(res, batch)
                batch = []
        if batch:
            run_batch(res, batch)
    elif spec["kind"] == "bigcount":
        # MVL/MVLD/EXL and the register-indirect block forms with I in {0x100, 0x101, 0x1FF, 0x234, 0x2001}: both cores
        # must move exactly I elements (pointers advance by I, I ends at 0); internal-memory sides wrap identically
        ops = [0xCB, 0xCF, 0xC3, 0xD3, 0xDB, 0xE3, 0xEB, 0x56, 0x5E]
        # (the counter is a 16-bit UNSIGNED quantity: 0x8001 and 0xFFFF are ordinary counts)
        counts = [0x100, 0x101, 0x1FF, 0x234] + ([0x2001] if spec["part"] == 0 else []) + \
                 ([0x8001] if spec["part"] == 1 else []) + ([0xFFFF] if spec["part"] == 2 else [])
        batch = []
        for op in ops:
            for cnt in counts:
                if cnt > 0x1000 and op not in (0xCB, 0xC3, 0xE3):
                    continue
                b2 = {0xE3: 0x24, 0xEB: 0x24, 0x56: 0x84, 0x5E: 0x84}.get(op, r.randrange(0x10, 0x60))
                pfx = r.choice((None, 0x32, 0x22, 0x36))
                case = states.build_case(r, pfx, op, b2, "dist", small_payload=True, canonical=True, icount=cnt)
                if case is None:
                    continue
                case["regs"]["FHI"] = 0
                case["regs"]["I"] = cnt
                batch.append(case)
        res.count("bigcount_cases", len(batch))
        run_batch(res, batch)
    elif spec["kind"] == "izero":
        # every counted instruction with I = 0 (the cores are known to disagree for some of them - each group is recorded
        # with exactly the fields that differ, so that any OTHER change of the I = 0 behaviour is still reported)
        ops = [0x54, 0x55, 0x5C, 0x5D, 0xC4, 0xC5, 0xD4, 0xD5, 0xEC, 0xFC, 0xC3, 0xCB, 0xCF, 0xD3, 0xDB, 0xE3, 0xEB, 0xF3,
               0xFB, 0x56, 0x5E, 0xEF]
        batch = []
        for op in ops:
            for pfx in (None, 0x32, 0x22, 0x36, 0x25):
                for rep in range((4 if op in (0xE3, 0xEB) else 2) if spec["tier"] == "quick" else 8):
                    b2 = {0xE3: (0x24, 0x34, 0x37, 0x05)[rep % 4], 0xEB: (0x24, 0x34, 0x37, 0x05)[rep % 4],
                          0x56: (0x84, 0xC5)[rep % 2], 0x5E: (0x84, 0xC5)[rep % 2]}.get(op, r.randrange(0x10, 0x60))
                    case = states.build_case(r, pfx, op, b2, "dist", small_payload=True, canonical=True, icount=0)
                    if case is None:
                        continue
                    case["regs"]["FHI"] = 0
                    case["regs"]["I"] = 0
                    case["regs"]["FC"] = rep & 1
                    case["regs"]["FZ"] = (rep >> 1) & 1 if spec["tier"] != "quick" else 1 - (rep & 1)
                    batch.append(case)
        res.count("izero_cases", len(batch))
        run_batch(res, batch)
    else:
        from .. import programs
        n = (2000 if spec["tier"] == "quick" else 40000) // spec["parts"]
        programs.lockstep_shard(res, r, n)
    return res


def replay(case):
    from .. import pyexec, rust
    from .c03 import _slim
    if "program" in case:
        return []
    rr = rust.run("exec", [dict(_slim(case), id=0)])
    obs = pyexec.run_case(case)
    if "exc" in obs:
        return [{"clause": "python_raises", "detail": obs["exc"]}]
    fields, det = compare(case, obs, rr[0])
    return [{"fields": fields, "detail": det}] if fields else []
