"""C07 - an instruction's effect depends only on architectural state (both cores)."""
from __future__ import annotations

import hashlib
import json
import os
import subprocess
import sys

from ..core import Result, rng, ROOT, PY, _worker_env
from .. import enc

PROPERTY = "C07"
LEVEL = "exploration"
NEEDS = ("rust",)
EXHAUSTIVE = {"quick": False, "thorough": False}
REQUIRED_MONITORS = ["py_history_differential", "py_same_address_twin", "rust_history_differential", "py_split_run", "rust_split_run", "rust_runtime_split_run",
                     "rust_thread_stress", "fresh_process_determinism"]
RULE = ("(1) every sampled accepted head is executed from a FRESH core and again on a long-lived core that has already "
        "executed every previous case of the shard (arbitrary history), with TEMP0-13 poisoned (seeded + boundary values), "
        "call bookkeeping junk and (Rust) perf counters set; architectural post-states must be equal; (2) Python reads of "
        "a TEMP before any write in the same instruction (taint events) direct extra runs with that TEMP in "
        "{0,1,0xFF,0xFFFF,0xFFFFFF}; (3) programs: continuous run vs CPUStepper chain of fresh CPUs (Python), one "
        "executor vs executor+state rebuilt from architectural registers every k steps (Rust); (4) 8 Rust threads run the "
        "programs concurrently with yield injection vs single-thread reference traces; (5) the same trace digest from two "
        "fresh processes with different PYTHONHASHSEED. distinct_nontrivial = distinct (head, history position) cases + programs.")
ASSUMPTIONS = ["only architectural outputs are compared (registers BA,I,X,Y,U,S,PC, C,Z, power state, memory)",
               "taint events alone never decide"]

BVALS = [0, 1, 0xFF, 0xFFFF, 0xFFFFFF]


def plan(tier, seed):
    specs = []
    idx = 0
    for s in enc.plan_heads("quick"):
        s.update(kind="hist", seed=seed, tier=tier, idx=idx)
        if tier == "quick":
            s["seconds"] = [0x00, 0x04, 0x24, 0x35, 0x86, 0xC7, 0x80]
            s["prefixes"] = [0, 2, 5, 10, 14]
        specs.append(s)
        idx += 1
    n = 4 if tier == "quick" else 16
    for i in range(n):
        specs.append({"kind": "split", "part": i, "parts": n, "seed": seed, "tier": tier, "idx": idx}); idx += 1
    specs.append({"kind": "threads", "seed": seed, "tier": tier, "idx": idx}); idx += 1
    for i in range(2 if tier == "quick" else 8):
        specs.append({"kind": "rtsplit", "seed": seed, "tier": tier, "idx": idx}); idx += 1
    return specs


def arch_out(obs):
    if "exc" in obs:
        return ("exc", obs["exc"][:80])
    return (tuple(sorted(obs["regs"].items())), obs["PC"], obs["FC"], obs["FZ"], obs["halted"],
            tuple(sorted(obs["final"].items())))


class HistoryCore:
    """A long-lived Python Emulator that keeps TEMPs / call_sub_level / decoder state across cases."""

    def __init__(self):
        from .. import pyexec
        from ..pyside import FlatMem
        from sc62015.pysc62015.emulator import Emulator
        self.emu = Emulator(FlatMem(log=False), reset_on_init=False)
        self.emu.regs = pyexec.LogRegs()

    def run(self, case, temps=None):
        from .. import pyexec
        from ..pyside import FlatMem
        from sc62015.pysc62015.emulator import RegisterName
        emu = self.emu
        mem = FlatMem({int(k): v for k, v in case.get("mem", {}).items()})
        mem.load_bytes(case["addr"], bytes.fromhex(case["bytes"]))
        emu.memory = mem
        regs = emu.regs
        r = case["regs"]
        for n in pyexec.ARCH_REGS:
            regs.set(RegisterName[n], r[n])
        regs.set(RegisterName.F, (r.get("FHI", 0) & 0xFC) | r["FC"] | (r["FZ"] << 1))
        regs.set(RegisterName.PC, case["addr"])
        # (emu.state.halted is deliberately NOT reset: the statement counts only registers, flags and memory as inputs, so
        #  a low-power flag left by an earlier HALT/OFF is history that must not change what the next instruction does)
        if temps:
            for i, v in temps.items():
                regs.set(RegisterName[f"TEMP{i}"], v)
        mem.clear_logs()
        try:
            emu.execute_instruction(case["addr"])
        except BaseException as e:  # noqa: BLE001
            return {"exc": f"execute:{type(e).__name__}:{str(e)[:160]}"}
        return {"regs": {n: regs.get(RegisterName[n]) for n in pyexec.ARCH_REGS},
                "PC": regs.get(RegisterName.PC), "FC": regs.get(RegisterName.FC), "FZ": regs.get(RegisterName.FZ),
                "halted": bool(emu.state.halted), "final": {a: mem.peek(a) for a, _ in mem.writes}}


def rust_arch(rres):
    st = rres["steps"][0]
    if "panic" in st or "err" in st:
        return ("exc", st.get("panic", st.get("err"))[:80])
    return (tuple(sorted(st["regs"].items())), st["pc"], st["f"] & 3, st["power"],
            tuple(sorted((int(a), v) for a, v in rres["final"].items())))


def run_hist(spec, res: Result):
    from .. import states, pyexec, rust
    from .c03 import _slim
    r = rng(spec["seed"], "c07", spec["idx"])
    core = HistoryCore()
    res.count("taint_events", 0)
    cases = []
    for (pfx, op, b2) in enc.shard_heads(spec):
        fl = r.choice(("dist", "dist", "random", "boundary"))
        # one case in eight runs a counted instruction with I = 0 (the loop body is skipped / runs 65536 times: either way
        # whatever the instruction leaves in scratch state must not leak into the next one)
        case = states.build_case(r, pfx, op, b2, fl, small_payload=(fl == "dist"), icount=0 if r.random() < 0.125 else None)
        if case is None:
            continue
        cases.append(case)
    # ---------------- Python --------------------------------------------------------------
    for n, case in enumerate(cases):
        res.evaluations += 1
        fresh = pyexec.run_case(case)
        if "exc" in fresh and str(fresh.get("name", "")).startswith("???"):
            continue
        # same address, same leading bytes, different LAST byte executed just before: any decode cache keyed by the
        # address and a prefix of the bytes would replay the twin (self-modifying operand / patched page byte)
        # (must come BEFORE the case itself is first executed at this address on the long-lived core)
        if case["len"] >= 2 and "exc" not in fresh and (spec["tier"] == "thorough" or case["len"] >= 4 or n % 4 == 0):
            raw = bytearray(bytes.fromhex(case["bytes"]))
            L = case["len"]
            for flip in (0x01, 0x10, 0x80):
                tw = bytearray(raw)
                tw[L - 1] ^= flip
                twin = dict(case, bytes=bytes(tw).hex())
                tfresh = pyexec.run_case(twin)
                if "exc" in tfresh or tfresh.get("len", L) != L:
                    continue
                core.run(twin)
                again = core.run(case)
                res.monitor("py_same_address_twin")
                a2, b2_ = arch_out(fresh), arch_out(again)
                if not isinstance(b2_[0], str) and not a2[4] and b2_[4]:
                    b2_ = b2_[:4] + (False,) + b2_[5:]
                if a2 != b2_:
                    res.violation({"clause": "stale_decode_after_code_change", "core": "python", "op": f"{case['opc']:02X}"},
                                  _slim(case), {"twin_bytes": bytes(tw[:L]).hex(), "fresh": repr(a2)[:300],
                                                "after_twin": repr(b2_)[:300]})
                break
        # in-line predecessor: a NOP one byte below falls through to this address while OTHER bytes sit here (the
        # instruction's twin); then the bytes change (host poke / overlay switch / the program's own store) and the case
        # is executed in line. A fetch path that reads ahead and keeps what it read would execute the twin.
        if "exc" not in fresh and n % 3 == 1 and case["addr"] > 0x100:
            raw = bytes.fromhex(case["bytes"])
            L = case["len"]
            tw = bytearray(raw)
            tw[L - 1] ^= 0x10
            if L == 1:
                tw[0] = 0x00 if raw[0] != 0x00 else 0x08
            pred = dict(case, addr=case["addr"] - 1, bytes="00" + bytes(tw).hex())
            pr = core.run(pred)
            if "exc" not in pr and pr["PC"] == case["addr"]:
                again = core.run(case)
                res.monitor("py_inline_predecessor")
                a3, b3 = arch_out(fresh), arch_out(again)
                if not isinstance(b3[0], str) and not a3[4] and b3[4]:
                    b3 = b3[:4] + (False,) + b3[5:]
                if a3 != b3:
                    res.violation({"clause": "stale_fetch_after_code_change", "core": "python", "op": f"{case['opc']:02X}"},
                                  _slim(case), {"bytes_seen_by_predecessor": bytes(tw[:L]).hex(), "fresh": repr(a3)[:300],
                                                "in_line": repr(b3)[:300]})
        temps = {i: r.choice(BVALS + [r.randrange(1 << 24)]) for i in range(14)} if n % 2 == 0 else None
        core.emu.regs.call_sub_level = r.randrange(0, 5)
        hist = core.run(case, temps)
        res.monitor("py_history_differential")
        res.nontrivial("py", case["pfx"], case["op"], case["b2"], n)
        a, b = arch_out(fresh), arch_out(hist)
        if not isinstance(a[0], str) and not isinstance(b[0], str) and not a[4] and b[4]:
            # a low-power flag still set from an earlier HALT/OFF of the history is not an effect of THIS instruction
            b = b[:4] + (False,) + b[5:]
        if a != b:
            res.violation({"clause": "history_changes_result", "core": "python", "op": f"{case['opc']:02X}"},
                          _slim(case), {"fresh": repr(a)[:300], "after_history": repr(b)[:300], "position": n})
        taint = sorted(set(fresh.get("uninit_temp_reads", []))) if "exc" not in fresh else []
        if taint:
            res.count("taint_events", len(taint))
            res.table("taint_by_mnemonic", case["mn"])
            for t in taint:
                idx = int(t[4:])
                for v in BVALS:
                    o2 = pyexec.run_case(case, temps={idx: v})
                    res.monitor("py_taint_directed")
                    if arch_out(o2) != a:
                        res.violation({"clause": "temp_value_leaks", "core": "python", "op": f"{case['opc']:02X}",
                                       "temp": t}, _slim(case), {"temp_value": v, "fresh": repr(a)[:200],
                                                                "poisoned": repr(arch_out(o2))[:200]})
                        break
    # ---------------- Rust ----------------------------------------------------------------
    plain = rust.run("exec", [dict(_slim(c), id=i) for i, c in enumerate(cases)])
    poisoned_in = []
    for i, c in enumerate(cases):
        h = [dict(_slim(cases[j]), steps=1) for j in (max(0, i - 3), max(0, i - 2), max(0, i - 1))]
        poisoned_in.append(dict(_slim(c), id=i,
                                temps={str(k): r.choice(BVALS + [r.randrange(1 << 24)]) for k in range(14)},
                                junk={"call_pages": [r.randrange(16) << 16 for _ in range(r.randrange(0, 4))],
                                      "call_frames": [r.randrange(1 << 20) for _ in range(r.randrange(0, 4))],
                                      "call_depth": r.randrange(0, 9), "perf_counter": r.randrange(1 << 40)},
                                history=h, fresh_executor=bool(i % 2)))
    pois = rust.run("exec", poisoned_in)
    for c, a, b in zip(cases, plain, pois):
        res.monitor("rust_history_differential")
        res.nontrivial("rs", c["pfx"], c["op"], c["b2"])
        ra, rb = rust_arch(a), rust_arch(b)
        if ra != rb:
            res.violation({"clause": "history_changes_result", "core": "rust", "op": f"{c['opc']:02X}"},
                          _slim(c), {"fresh": repr(ra)[:300], "after_history": repr(rb)[:300]})
    if cases and len(res.samples) < 2:
        res.sample({"bytes": cases[0]["bytes"], "history_len": len(cases), "temps_poisoned": True})


def run_split(spec, res: Result):
    from .. import programs, rust
    from sc62015.pysc62015.stepper import CPUStepper, CPURegistersSnapshot
    from sc62015.pysc62015.emulator import RegisterName
    r = rng(spec["seed"], "c07split", spec["idx"])
    n = (200 if spec["tier"] == "quick" else 4000) // spec["parts"]
    progs = [programs.gen_program(r, max_instr=24) for _ in range(n)]
    nsteps = 60
    for prog in progs:
        res.evaluations += 1
        # Python: continuous emulator vs chain of CPUStepper steps (fresh CPU per step, snapshot in/out)
        zero = lambda a: 0  # noqa: E731  (CPUStepper's image has a constant default, so use it on both sides)
        trace, emu, mem = programs.run_python(prog, nsteps, fill=zero)
        from .. import pyexec
        e0, m0, r0 = pyexec.make_emu(prog, log=False, fill=zero)
        snap = CPURegistersSnapshot.from_registers(r0)
        img = dict(m0.data)
        stepper = CPUStepper(default_memory_value=0)
        res.monitor("py_split_run")
        res.nontrivial("split", prog["bytes"][:48], prog["addr"])
        ok = True
        for i, p in enumerate(trace):
            if "exc" in p or "invalid" in p:
                break
            img_before = dict(img)
            snap_before = snap.to_dict()
            try:
                out = stepper.step(snap, img)
                # the same inputs again (every third step): a step is a function of (registers, image) only, and it must
                # leave the caller's registers and image alone - the second result is the first one
                out2 = stepper.step(snap, img) if i % 3 == 0 else None
            except BaseException as e:  # noqa: BLE001
                res.violation({"clause": "split_run_raises", "core": "python"}, {"program": prog, "step": i},
                              f"{type(e).__name__}:{str(e)[:120]}")
                ok = False
                break
            res.monitor("py_stepper_inputs_untouched")
            if img != img_before or snap.to_dict() != snap_before:
                res.violation({"clause": "stepper_modifies_its_inputs", "core": "python",
                               "what": "image" if img != img_before else "registers"},
                              {"program": prog, "step": i}, {"at": p["at"]})
                ok = False
                break
            if out2 is not None:
                res.monitor("py_stepper_same_inputs_twice")
                if (out2.registers.to_dict() != out.registers.to_dict() or
                        [(w.address, w.value) for w in out2.memory_writes] != [(w.address, w.value) for w in out.memory_writes]):
                    res.violation({"clause": "same_inputs_different_result", "core": "python", "how": "stepper_twice"},
                                  {"program": prog, "step": i}, {"at": p["at"]})
                    ok = False
                    break
            for wv in out.memory_writes:
                # the continuous run's memory wraps addresses at 24 bits (vt.pyside.FlatMem); a multi-byte write that
                # runs past 0xFFFFFF must land on the same cells in the caller-maintained image of the split run
                img[wv.address & 0xFFFFFF] = wv.value
            snap = out.registers
            got = {"BA": snap.ba, "I": snap.i, "X": snap.x, "Y": snap.y, "U": snap.u, "S": snap.s}
            fields = [k for k in got if got[k] != p["regs"][k]]
            if (snap.pc & 0xFFFFF) != (p["pc"] & 0xFFFFF):
                fields.append("PC")
            if (snap.f & 1) != p["c"] or ((snap.f >> 1) & 1) != p["z"]:
                fields.append("F")
            wr = {}
            for wv in out.memory_writes:
                wr[wv.address & 0xFFFFFF] = wv.value
            if wr != p["writes"]:
                fields.append("mem")
            if fields:
                res.violation({"clause": "split_differs_from_continuous", "core": "python", "fields": sorted(fields)},
                              {"program": prog, "step": i}, {"at": p["at"], "fields": fields})
                ok = False
                break
            if p["halted"]:
                break
        if ok:
            res.count("py_split_programs_equal")
    # Rust: one executor/state vs rebuilt-from-architectural-registers every k steps
    for k in (1, 3, 7):
        a = rust.run("exec", [dict(p, id=i, steps=nsteps) for i, p in enumerate(progs)])
        b = rust.run("exec", [dict(p, id=i, steps=nsteps, split_every=k) for i, p in enumerate(progs)])
        for prog, ra, rb in zip(progs, a, b):
            res.monitor("rust_split_run")
            if ra["steps"] != rb["steps"] or ra["final"] != rb["final"]:
                first = next((i for i, (x, y) in enumerate(zip(ra["steps"], rb["steps"])) if x != y), -1)
                res.violation({"clause": "split_differs_from_continuous", "core": "rust", "split_every": k},
                              {"program": prog, "step": first},
                              {"continuous": json.dumps(ra["steps"][first])[:300] if first >= 0 else None,
                               "split": json.dumps(rb["steps"][first])[:300] if first >= 0 else None})
            else:
                res.count("rust_split_programs_equal")
    if progs:
        res.sample({"program": progs[0]["bytes"][:80], "split_points": [1, 3, 7], "steps": nsteps})


class _FillMapping(dict):
    """Mapping handed to CPUStepper: dict(image) copies it, so provide the filled view explicitly."""

    def __init__(self, img):
        super().__init__(img)
        self._img = img

    def keys(self):
        return super().keys()


def run_threads(spec, res: Result):
    from .. import programs, rust
    r = rng(spec["seed"], "c07threads", spec["idx"])
    n = 50 if spec["tier"] == "quick" else 1000
    progs = [programs.gen_program(r, max_instr=24) for _ in range(n)]
    for lo in range(0, n, 50):
        out = rust.run("threads", [{"programs": progs[lo:lo + 50], "threads": 8, "steps": 80, "seed": spec["seed"] + lo}],
                       timeout=1200)[0]
        res.evaluations += out["programs"] * out["threads"]
        res.monitor("rust_thread_stress", out["programs"] * out["threads"])
        res.count("thread_steps_compared", out["steps_compared"])
        res.count("thread_yields_injected", out["yields"])
        for i in range(out["programs"]):
            res.nontrivial("thr", lo + i)
        for m in out["mismatches"][:20]:
            res.violation({"clause": "concurrent_runtime_changes_result", "core": "rust"},
                          {"program": progs[lo + m.get("program", 0)] if "program" in m else None}, m)


def run_shard(spec) -> Result:
    res = Result()
    if spec["kind"] == "hist":
        run_hist(spec, res)
    elif spec["kind"] == "rtsplit":
        # N+M steps vs N then M on the real CoreRuntime (interrupts, timers, keyboard live): step(total) in one call vs
        # total x step(1) vs several calls through the async runner - the machine-level twin of the executor split run
        from . import c18
        from .. import rust
        r = rng(spec["seed"], "c07rt", spec["idx"])
        jobs = c18.cpu_jobs(r, 60 if spec["tier"] == "quick" else 400, spec["tier"])
        outs = rust.run("sched", [dict(j, id=i) for i, j in enumerate(jobs)], timeout=1800)
        for j, o in zip(jobs, outs):
            res.evaluations += 1
            res.monitor("rust_runtime_split_run")
            if o.get("sync_err") or o.get("sync1_err"):
                continue
            d = [k for k in o["sync1"] if o["sync"].get(k) != o["sync1"].get(k)]
            if d:
                res.violation({"clause": "step_n_differs_from_n_single_steps", "core": "rust_runtime", "fields": sorted(d)[:8]},
                              {"kind": j["kind"], "n": j["n"], "timer": j["timer"], "code": j["code"][:1]},
                              {k: (o["sync1"].get(k), o["sync"].get(k)) for k in d if k != "imem"})
            elif o["sync"].get("instrs", 0) >= 5:
                res.nontrivial("rtsplit", j["kind"], repr(j["code"][:1])[:100], tuple(j["n"]))
    elif spec["kind"] == "split":
        run_split(spec, res)
    else:
        run_threads(spec, res)
    return res


def digest_main(seed: int) -> None:
    """Fresh-process determinism: print a digest of the traces of 60 programs (run under the env given)."""
    from .. import programs
    r = rng(seed, "c07digest")
    h = hashlib.sha256()
    for _ in range(60):
        prog = programs.gen_program(r, max_instr=20)
        trace, emu, mem = programs.run_python(prog, 50)
        h.update(json.dumps([{k: v for k, v in t.items()} for t in trace], sort_keys=True, default=str).encode())
    print("DIGEST", h.hexdigest())


def finalize(merged: Result, tier, seed):
    outs = []
    for hs in ("0", "98765"):
        env = _worker_env()
        env["PYTHONHASHSEED"] = hs
        p = subprocess.run([PY, "-c", f"from vt.checks import c07; c07.digest_main({seed})"], cwd=str(ROOT), env=env,
                           stdout=subprocess.PIPE, stderr=subprocess.PIPE, timeout=900)
        line = [l for l in p.stdout.decode().splitlines() if l.startswith("DIGEST")]
        outs.append(line[0] if line else "ERR " + p.stderr.decode()[-300:])
    merged.monitor("fresh_process_determinism", 2)
    merged.evaluations += 2
    if outs[0] != outs[1] or outs[0].startswith("ERR"):
        merged.violation({"clause": "fresh_processes_differ"}, {"seed": seed}, {"digests": outs})
    merged.notes.append(f"fresh-process digests: {outs}")


def replay(case):
    return []
