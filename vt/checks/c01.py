"""C01 - decoding is total, deterministic, consistent across consumers."""
from __future__ import annotations

from ..core import Result, rng
from .. import enc

PROPERTY = "C01"
LEVEL = "exploration"
NEEDS = ()
EXHAUSTIVE = {"quick": False, "thorough": True}
REQUIRED_MONITORS = ["consumer_consistency", "trailing_independence", "history_redecode", "same_address_twin",
                     "template_fingerprint", "truncation"]
RULE = ("heads = (prefix in {none,0x21-0x27,0x30-0x37}) x opcode x second byte (thorough: all 256 second "
        "bytes = the complete structural space; quick: 14 second bytes covering every mode-nibble class) "
        "+ 5 seeded payload bytes; each head is decoded at a rotating address by the 4 real consumers, on "
        "the full buffer, every truncation, 3 trailing-byte mutations, and again after 7 other heads. "
        "distinct_nontrivial counts distinct (prefix,opcode,second byte) heads that the info callback ACCEPTED "
        "(rejections are evaluated but are trivial).")
ASSUMPTIONS = [
    "binja_test_mocks stands in for Binary Ninja's InstructionInfo/IL function",
    "bytes after the one following the opcode are sampled (they are pure payload in this ISA)",
]

ADDRS = [0, 0xFFFF, 0x10000, 0x1FFFE, 0xFFFFA, 0xFFFFF, 0xFFFFE, 0x0FFFD, 0x12345, 0xEFFF8]

_arch = None
_emu = None


def _setup():
    global _arch, _emu
    if _arch is None:
        from ..pyside import FlatMem  # noqa: F401  (sets env before binja imports)
        from sc62015.arch import SC62015
        _arch = SC62015()
    return _arch


_LONG: dict = {}


def consumers(buf: bytes, addr: int, arch=None):
    """Run the 4 real consumers. Returns (outcome, errors).
    outcome = dict(info=(len, branches)|None, text=(len, mnemonic, tokens)|None, il=(len, shape)|None,
                   emu=(len, name))"""
    from ..pyside import FlatMem, il_shape, tokens_key, MockLowLevelILFunction
    from sc62015.pysc62015.emulator import Emulator
    arch = arch or _setup()
    errs = []
    out = {}
    try:
        info = arch.get_instruction_info(buf, addr)
        out["info"] = None if info is None else (
            info.length, tuple((str(getattr(b, "type", b)), getattr(b, "target", None)) for b in info.branches))
    except BaseException as e:  # noqa: BLE001
        errs.append(("info", type(e).__name__, str(e)[:200]))
        out["info"] = ("ERR",)
    try:
        t = arch.get_instruction_text(buf, addr)
        if t is None:
            out["text"] = None
        else:
            toks, ln = t
            out["text"] = (ln, "".join(x.text for x in toks[:1]).strip(),
                           tuple((str(x.type), x.text) for x in toks))
    except BaseException as e:  # noqa: BLE001
        errs.append(("text", type(e).__name__, str(e)[:200]))
        out["text"] = ("ERR",)
    try:
        il = MockLowLevelILFunction()
        ln = arch.get_instruction_low_level_il(buf, addr, il)
        out["il"] = None if ln is None else (ln, il_shape(il))
    except BaseException as e:  # noqa: BLE001
        errs.append(("il", type(e).__name__, str(e)[:200]))
        out["il"] = ("ERR",)
    try:
        mem = FlatMem(log=False)
        mem.load_bytes(addr, buf)
        emu = Emulator(mem, reset_on_init=False)
        ins = emu.decode_instruction(addr)
        out["emu"] = (ins.length(), ins.name())
    except BaseException as e:  # noqa: BLE001
        errs.append(("emu", type(e).__name__, str(e)[:200]))
        out["emu"] = ("ERR",)
    return out, errs


def deep_fp(obj, depth=0, seen=None):
    import enum
    if seen is None:
        seen = set()
    if isinstance(obj, (int, str, bool, type(None), float, bytes)):
        return obj
    if isinstance(obj, enum.Enum):
        return ("E", type(obj).__name__, obj.name)
    if isinstance(obj, type):
        return ("T", obj.__name__)
    if id(obj) in seen or depth > 12:
        return ("cycle",)
    seen = seen | {id(obj)}
    if isinstance(obj, dict):
        return tuple(sorted(((repr(deep_fp(k, depth + 1, seen)), deep_fp(v, depth + 1, seen))
                             for k, v in obj.items()), key=lambda kv: kv[0]))
    if isinstance(obj, (list, tuple)):
        return tuple(deep_fp(x, depth + 1, seen) for x in obj)
    if isinstance(obj, (set, frozenset)):
        return tuple(sorted(repr(deep_fp(x, depth + 1, seen)) for x in obj))
    d = getattr(obj, "__dict__", None)
    if d is not None:
        return (type(obj).__name__, deep_fp(d, depth + 1, seen))
    return (type(obj).__name__, repr(obj))


def opcodes_fingerprint():
    from sc62015.pysc62015.instr import OPCODES
    from ..core import khash
    return khash(deep_fp(OPCODES))


def check_case(res: Result | None, buf: bytes, addr: int, head, want_trunc=True, mut_seed=0):
    """All per-case clauses. Returns (violations list, accepted outcome or None)."""
    viol = []

    def v(sig, detail=None):
        sig = dict(sig)
        viol.append({"sig": sig, "case": {"buf": buf.hex(), "addr": addr}, "detail": detail})

    out, errs = consumers(buf, addr)
    for (c, et, msg) in errs:
        v({"clause": "unexpected_error", "consumer": c, "exc": et}, msg)
    if res:
        res.monitor("consumer_consistency")
    info = out["info"]
    accepted = info is not None and info != ("ERR",)
    if accepted:
        L = info[0]
        if not (1 <= L <= len(buf)):
            v({"clause": "length_range"}, {"len": L, "supplied": len(buf)})
        for c in ("text", "il"):
            o = out[c]
            if o == ("ERR",):
                continue
            if o is None:
                v({"clause": "info_accepts_other_rejects", "consumer": c}, {"info_len": L})
            elif o[0] != L:
                v({"clause": "length_mismatch", "consumer": c}, {"info_len": L, "other": o[0]})
        e = out["emu"]
        if e != ("ERR",):
            if e[0] != L or e[1].startswith("UNK_"):
                v({"clause": "emu_fetch_mismatch"}, {"info_len": L, "emu": e})
            elif out["text"] not in (None, ("ERR",)) and out["text"][1] != e[1]:
                v({"clause": "mnemonic_mismatch"}, {"text": out["text"][1], "emu": e[1]})
    # determinism: second decode of the same bytes
    out2, _ = consumers(buf, addr)
    if out2 != out:
        v({"clause": "nondeterministic"}, {"first": repr(out)[:300], "second": repr(out2)[:300]})
    # independence of trailing bytes
    if accepted and 1 <= info[0] <= len(buf):
        L = info[0]
        r = rng(mut_seed, "mut", buf.hex(), addr)
        variants = [buf[:L]]
        for _ in range(3):
            if L < len(buf):
                b = bytearray(buf)
                for i in range(L, len(buf)):
                    if r.random() < 0.7:
                        b[i] = r.randrange(256)
                variants.append(bytes(b))
        variants.append(buf[:L] + bytes([0x32, 0x21, 0xFF]))
        for vb in variants:
            o3, e3 = consumers(vb, addr)
            if res:
                res.monitor("trailing_independence")
            if o3 != out:
                v({"clause": "depends_on_trailing_bytes"},
                  {"variant": vb.hex(), "base": repr(out)[:300], "var": repr(o3)[:300]})
                break
    # truncations: never an unexpected error; accepted length <= supplied
    if want_trunc:
        for k in range(0, len(buf)):
            tb = buf[:k]
            ot, et = consumers(tb, addr) if k else _empty_consumers(addr)
            if res:
                res.monitor("truncation")
            for (c, etn, msg) in et:
                if c == "emu":
                    continue  # emulator reads memory, not the truncated buffer
                v({"clause": "unexpected_error_truncated", "consumer": c, "exc": etn}, {"k": k, "msg": msg})
            ti = ot["info"]
            if ti not in (None, ("ERR",)):
                if not (1 <= ti[0] <= k):
                    v({"clause": "length_range_truncated"}, {"k": k, "len": ti[0]})
                for c in ("text", "il"):
                    if ot[c] is None:
                        v({"clause": "info_accepts_other_rejects", "consumer": c, "truncated": True}, {"k": k})
                    elif ot[c] != ("ERR",) and ot[c][0] != ti[0]:
                        v({"clause": "length_mismatch", "consumer": c, "truncated": True}, {"k": k})
    return viol, (out if accepted else None), out


def _empty_consumers(addr):
    arch = _setup()
    from ..pyside import MockLowLevelILFunction
    errs = []
    out = {"emu": None}
    for name, fn in (("info", lambda: arch.get_instruction_info(b"", addr)),
                     ("text", lambda: arch.get_instruction_text(b"", addr)),
                     ("il", lambda: arch.get_instruction_low_level_il(b"", addr, MockLowLevelILFunction()))):
        try:
            r = fn()
            out[name] = None if r is None else ("ACCEPTED-EMPTY", r)
            if r is not None:
                out[name] = (getattr(r, "length", 99),)
        except BaseException as e:  # noqa: BLE001
            errs.append((name, type(e).__name__, str(e)[:200]))
            out[name] = ("ERR",)
    return out, errs


def plan(tier, seed):
    specs = enc.plan_heads(tier)
    for i, s in enumerate(specs):
        s["seed"] = seed
        s["tier"] = tier
        s["idx"] = i
    # specials: 0x20/0xBF, PRE PRE, PRE at end
    specs.append({"special": True, "seed": seed, "tier": tier, "idx": len(specs)})
    # the same encodings decoded in two processes in opposite orders (forms that share a mnemonic back to back): what one
    # form leaves behind in the process must not change what the consumers say about the next one
    for order in ("asc", "desc"):
        specs.append({"order": order, "seed": seed, "tier": tier, "idx": 9000 + len(specs)})
    return specs


def run_order(spec) -> Result:
    import hashlib
    from sc62015.pysc62015.instr.opcode_table import OPCODES
    res = Result()
    _setup()
    groups = {}
    for opcode, d in sorted(OPCODES.items()):
        cls = d[0] if isinstance(d, tuple) else d
        groups.setdefault(cls.__name__, []).append(opcode)
    for pfx in enc.PREFIXES:
        for name, ops in sorted(groups.items()):
            order = ops if spec["order"] == "asc" else list(reversed(ops))
            for op in order:
                for b2 in (0x04, 0x24, 0x86, 0xC0):
                    buf = enc.head_bytes(pfx, op, b2, enc.payload(spec["seed"], pfx, op, b2, n=6))
                    out, errs = consumers(buf, 0x4321)
                    res.evaluations += 1
                    res.monitor("order_independence")
                    h = hashlib.sha256(repr((out, errs)).encode()).hexdigest()[:16]
                    res.table("order_hash", f"{buf.hex()}={h}")
    return res


def finalize(merged: Result, tier, seed):
    seen = {}
    for key in merged.tables.pop("order_hash", {}):
        buf, h = key.split("=")
        seen.setdefault(buf, set()).add(h)
    bad = sorted(b for b, hs in seen.items() if len(hs) > 1)
    merged.counters["order_compared_encodings"] = len(seen)
    if bad:
        merged.violation({"clause": "history_dependent", "how": "decode_order_across_processes",
                          "op": bad[0][2:4] if bad[0][:2] in ("21", "22", "23", "24", "25", "26", "27", "30", "31", "32", "33",
                                                                "34", "35", "36", "37") else bad[0][:2]},
                         {"encodings": bad[:12], "addr": 0x4321}, {"count": len(bad)})


def run_shard(spec) -> Result:
    if spec.get("order"):
        return run_order(spec)
    res = Result()
    _setup()
    seed = spec["seed"]
    fp0 = opcodes_fingerprint()
    res.monitor("template_fingerprint")
    history = []
    n = 0

    def handle(buf, addr, head):
        nonlocal n
        viol, acc, out = check_case(res, buf, addr, head, want_trunc=True, mut_seed=seed)
        res.evaluations += 1
        n += 1
        if acc is not None:
            res.nontrivial(head)
            res.table("accepted_by_prefix", "none" if head[0] is None else
                      (head[0] if isinstance(head[0], str) else f"{head[0]:02X}"))
            if len(res.samples) < 3:
                res.sample({"bytes": buf.hex(), "addr": addr, "len": acc["info"][0],
                            "text": "".join(t[1] for t in acc["text"][2]) if acc["text"] else None})
        else:
            res.count("rejected")
        for x in viol:
            x["sig"]["op"] = f"{head[1]:02X}" if head[1] is not None else "--"
            res.violation(x["sig"], x["case"], x["detail"])
        # same address, same leading bytes, different LAST instruction byte queried right afterwards on the shared
        # architecture object: a memo keyed by address and a prefix of the bytes would answer with the previous decode
        if acc is not None and acc["info"] and acc["info"][0] >= 2 and (acc["info"][0] >= 5 or n % 3 == 0):
            L = acc["info"][0]
            tw = bytearray(buf)
            tw[L - 1] ^= 0x11
            tw = bytes(tw)
            from sc62015.arch import SC62015
            want, _ = consumers(tw, addr, arch=SC62015())
            got, _ = consumers(tw, addr)
            res.monitor("same_address_twin")
            if got != want:
                res.violation({"clause": "history_dependent", "how": "same_address_twin", "op": f"{head[1]:02X}" if head[1] is not None else "--"},
                              {"buf": buf.hex(), "twin": tw.hex(), "addr": addr},
                              {"fresh_object": repr(want)[:300], "after_previous_query": repr(got)[:300]})
            consumers(buf, addr)    # leave the shared object as the history test below expects
        # the emulator's fetch path on ONE long-lived Emulator: a NOP one byte below is fetched while the twin's bytes sit
        # at this address, then the bytes change and this address is fetched in line (address = previous + length)
        if acc is not None and acc["info"] and n % 4 == 1 and addr >= 1:
            from ..pyside import FlatMem
            from sc62015.pysc62015.emulator import Emulator
            L = acc["info"][0]
            tw = bytearray(buf)
            tw[L - 1] ^= 0x11
            if L == 1:
                tw[0] = 0x00 if buf[0] != 0x00 else 0x08
            long_emu = _LONG.get("emu")
            if long_emu is None:
                long_emu = _LONG["emu"] = Emulator(FlatMem(log=False), reset_on_init=False)
            try:
                m1 = FlatMem(log=False)
                m1.load_bytes(addr - 1, b"\x00" + bytes(tw))
                long_emu.memory = m1
                long_emu.decode_instruction(addr - 1)
                m2 = FlatMem(log=False)
                m2.load_bytes(addr - 1, b"\x00" + buf)
                long_emu.memory = m2
                ins = long_emu.decode_instruction(addr)
                got = (ins.length(), ins.name())
            except BaseException as e:  # noqa: BLE001
                got = ("ERR", type(e).__name__)
            res.monitor("emulator_inline_refetch")
            if got != out.get("emu"):
                res.violation({"clause": "history_dependent", "how": "emulator_inline_refetch",
                               "op": f"{head[1]:02X}" if head[1] is not None else "--"},
                              {"buf": buf.hex(), "bytes_seen_by_predecessor": bytes(tw).hex(), "addr": addr},
                              {"fresh_emulator": repr(out.get("emu")), "long_lived_emulator": repr(got)})
        history.append((buf, addr, out))
        if len(history) > 7:
            ob, oa, oo = history.pop(0)
            o2, _ = consumers(ob, oa)
            res.monitor("history_redecode")
            if o2 != oo:
                res.violation({"clause": "history_dependent"}, {"buf": ob.hex(), "addr": oa},
                              {"before": repr(oo)[:300], "after": repr(o2)[:300],
                               "between": [h[0].hex() for h in history]})
        if n % 20000 == 0:
            res.monitor("template_fingerprint")
            if opcodes_fingerprint() != fp0:
                res.violation({"clause": "opcode_templates_mutated"}, {"after_heads": n}, None)

    if spec.get("special"):
        r = rng(seed, "c01special")
        for a in range(256):
            for pat in ([0x20, a], [0xBF, a], [0x32, 0x32, a], [0x21, 0x35, a, a], [a, 0x32], [a, 0x00, 0x25]):
                buf = bytes(pat) + bytes(r.randrange(256) for _ in range(4))
                handle(buf, ADDRS[a % len(ADDRS)], ("special", pat[0], pat[1]))
            # PRE at the very end of the supplied bytes
            handle(bytes([0x30 + (a & 7)]), 0x100, ("special-end", 0x30 + (a & 7), None))
    else:
        r = rng(seed, "c01addr", spec["idx"])
        for (pfx, op, b2) in enc.shard_heads(spec):
            tail = enc.payload(seed, pfx, op, b2)
            buf = enc.head_bytes(pfx, op, b2, tail)
            addr = ADDRS[(op + b2) % len(ADDRS)] if r.random() < 0.8 else r.randrange(1 << 20)
            handle(buf, addr, (pfx, op, b2))
    res.monitor("template_fingerprint")
    if opcodes_fingerprint() != fp0:
        res.violation({"clause": "opcode_templates_mutated"}, {"after_heads": n}, None)
    return res


def replay(case):
    buf = bytes.fromhex(case["buf"])
    viol, _, _ = check_case(None, buf, case["addr"], None)
    return viol
