"""C15 - LCD controllers follow the HD61202 protocol; VRAM <-> pixel map is one-to-one."""
from __future__ import annotations

import zlib

from ..core import Result, rng

PROPERTY = "C15"
LEVEL = "exploration"
NEEDS = ("rust",)
EXHAUSTIVE = {"quick": False, "thorough": False}
REQUIRED_MONITORS = ["py_protocol", "rs_protocol", "py_vs_rs", "py_pixel_map", "rs_pixel_map", "single_write_column"]
RULE = ("histories of 20-500 reads/writes over both LCD windows (0x2000-0x2FFF, 0xA000-0xAFFF) using ALL 16 low-nibble "
        "decodings (incl. writes to 'read' addresses, reads of 'write' addresses, chip-select none), mirror offsets "
        "0x010..0xFF0, values weighted to the 4 command classes and their boundary arguments; ALL sequences of length <= 3 "
        "(quick: 2) over a 24-operation alphabet enumerated completely. After EVERY operation the full state of both real "
        "models (on, start line, page, Y, VRAM) and the read result are compared with a reference HD61202 pair and with each "
        "other. Pixel map: each of the 8192 VRAM bits is flipped once through the protocol and the display buffer diffed: "
        "every flip changes <= 1 pixel, each of the 7680 pixels is owned by exactly one bit (complete, both tiers; Rust also "
        "for 4 other start lines). Around every data write the display may change in one column per addressed chip only. "
        "distinct_nontrivial = distinct histories + VRAM bits flipped.")
ASSUMPTIONS = ["reference = the protocol as the property gives it (bit0 R/W, bit1 D/I, bits2-3 chip select; top 2 value bits select "
               "the instruction; data read returns column Y-1 and increments; status = busy<<7 | off<<5, read clears busy)",
               "display composition (on/off blanking, start-line scrolling) is not compared across models"]


class RefChip:
    def __init__(self):
        self.on = False
        self.busy = False
        self.start = 0
        self.page = 0
        self.y = 0
        self.vram = [[0] * 64 for _ in range(8)]


class RefLcd:
    def __init__(self):
        self.chips = [RefChip(), RefChip()]   # 0 = left, 1 = right

    @staticmethod
    def decode(addr):
        if (addr & 0xF000) not in (0x2000, 0xA000):
            return None
        lo = addr & 0xF
        cs = (lo >> 2) & 3
        if cs == 3:
            return None
        sel = {0: (0, 1), 1: (1,), 2: (0,)}[cs]
        return sel, (lo >> 1) & 1, lo & 1

    def write(self, addr, val):
        d = self.decode(addr)
        if d is None:
            return
        sel, di, rw = d
        if rw == 1:
            return   # a write cycle on a 'read' address is not a write command
        for i in sel:
            c = self.chips[i]
            c.busy = True
            if di == 0:
                k = val >> 6
                if k == 0:
                    c.on = bool(val & 1)
                elif k == 1:
                    c.y = val & 0x3F
                elif k == 2:
                    c.page = val & 7
                else:
                    c.start = val & 0x3F
            else:
                c.vram[c.page][c.y] = val
                c.y = (c.y + 1) % 64

    def read(self, addr):
        d = self.decode(addr)
        if d is None:
            return None
        sel, di, rw = d
        if rw == 0 or len(sel) != 1:
            return None
        c = self.chips[sel[0]]
        if di == 1:
            v = c.vram[c.page][(c.y - 1) % 64]
            c.y = (c.y + 1) % 64
            return v
        s = (0x80 if c.busy else 0) | (0 if c.on else 0x20)
        c.busy = False
        return s

    def state(self):
        return [[c.on, c.start, c.page, c.y] for c in self.chips]

    def crc(self):
        return zlib.crc32(bytes(b for c in self.chips for p in c.vram for b in p))


ALPHABET = [("w", 0x2000, 0x01), ("w", 0x2000, 0x00), ("w", 0x2004, 0x3F), ("w", 0x2008, 0x01), ("w", 0xA004, 0x7F),
            ("w", 0xA008, 0x40), ("w", 0x2004, 0xBF), ("w", 0x2008, 0x87), ("w", 0x2000, 0xFF), ("w", 0x2008, 0xC0),
            ("w", 0x2006, 0xAA), ("w", 0x200A, 0x55), ("w", 0x2002, 0xFF), ("w", 0x200E, 0x11), ("w", 0x2007, 0x22),
            ("w", 0x2005, 0x41), ("r", 0x2005, 0), ("r", 0x2009, 0), ("r", 0x2007, 0), ("r", 0x200B, 0), ("r", 0x2001, 0),
            ("r", 0x2003, 0), ("r", 0x2006, 0), ("r", 0xAFF7, 0)]


def gen_history(r, n, clean=False):
    ops = []
    for _ in range(n):
        win = r.choice((0x2000, 0xA000))
        lo = r.randrange(16)
        mirror = r.choice((0, 0, 0x010, 0x0F0, 0x5A0, 0xFF0))
        addr = win | mirror | lo
        if r.random() < 0.012:
            ops.append(("reset", 0, 0))     # controller reset in the middle of a history: everything back to power-on
            continue
        is_read = r.random() < 0.25
        if clean and not is_read and (lo & 1):
            # known finding c15-rs-write-ignores-rw-bit: keep most histories free of it so they run to the end
            addr &= ~1
        if is_read:
            ops.append(("r", addr, 0))
        else:
            cls = r.randrange(5)
            if cls == 0:
                v = r.choice((0x00, 0x01, 0x3E, 0x3F))
            elif cls == 1:
                v = 0x40 | r.choice((0, 1, 62, 63, r.randrange(64)))
            elif cls == 2:
                v = 0x80 | r.choice((0, 7, 8, 0x3F, r.randrange(64)))
            elif cls == 3:
                v = 0xC0 | r.choice((0, 63, r.randrange(64)))
            else:
                v = r.randrange(256)
            ops.append(("w", addr, v))
    return ops


def py_state(ctl):
    snap = ctl.get_snapshot()
    st = [[c.on, c.start_line, c.page, c.y_address] for c in snap.chips]
    crc = zlib.crc32(bytes(b for c in snap.chips for p in c.vram for b in p))
    return st, crc


def _snap_fp(snap):
    return tuple((c.on, c.start_line, c.page, c.y_address, zlib.crc32(bytes(b for p in c.vram for b in p))) for c in snap.chips)


def run_histories(res: Result, histories, pixels=True):
    from .. import rust
    from pce500.display.controller_wrapper import HD61202Controller
    rr = rust.run("lcd", [{"id": i, "ops": [list(o) for o in h], "pixels": pixels} for i, h in enumerate(histories)])
    for h, rout in zip(histories, rr):
        res.evaluations += 1
        res.nontrivial(tuple(h[:40]), len(h))
        ref = RefLcd()
        py = HD61202Controller()
        case = {"ops": [list(o) for o in h[:300]]}
        bogus_write_seen = False
        held = None            # (snapshot object taken after an earlier operation, its fingerprint at that time)
        completed = True
        for i, (op, ro) in enumerate(zip(h, rout["out"])):
            kind, addr, val = op
            if held is not None and i % 7 == 3:
                # a snapshot handed out earlier is a VALUE: later reads/writes must not change what it says
                res.monitor("py_snapshot_is_a_value")
                if _snap_fp(held[0]) != held[1]:
                    res.violation({"clause": "earlier_snapshot_changed_by_later_operation", "model": "py"}, case,
                                  {"taken_after_step": held[2], "checked_before_step": i})
                    completed = False
                    break
                held = None
            if held is None and i % 7 == 0:
                sn = py.get_snapshot()
                held = (sn, _snap_fp(sn), i)
            lo = addr & 0xF
            if kind == "w" and (lo & 1) and RefLcd.decode(addr) is not None:
                bogus_write_seen = True
            tag = {"op": kind, "lo": lo, "prior_write_to_read_addr": bogus_write_seen}
            if kind == "reset":
                ref = RefLcd()
                py.reset()
                want_rd = got_py = None
                res.monitor("mid_history_reset")
            elif kind == "w":
                before = py.get_display_buffer().copy() if pixels and (lo & 3) == 2 and RefLcd.decode(addr) else None
                ref.write(addr, val)
                py.write(addr, val)
                want_rd = got_py = None
            else:
                want_rd = ref.read(addr)
                got_py = py.read(addr)
            st, crc = py_state(py)
            res.monitor("py_protocol")
            if st != ref.state() or crc != ref.crc() or (kind == "r" and got_py != want_rd):
                res.violation(dict(tag, clause="python_protocol_state"), case,
                              {"step": i, "op": op, "got": [st, got_py], "want": [ref.state(), want_rd]})
                completed = False
                break
            if kind == "r":
                # busy flag is only visible through status reads: compare via the value itself (done above)
                pass
            res.monitor("rs_protocol")
            rs_state = [[bool(c[0]), c[1], c[2], c[3]] for c in ro["chips"]]
            if rs_state != ref.state() or ro["crc"] != ref.crc() or (kind == "r" and ro.get("rd") != want_rd):
                res.violation(dict(tag, clause="rust_protocol_state"), case,
                              {"step": i, "op": op, "got": [rs_state, ro.get("rd")], "want": [ref.state(), want_rd]})
                completed = False
                break
            res.monitor("py_vs_rs")
            if kind == "w" and (lo & 3) == 2 and pixels and RefLcd.decode(addr) is not None:
                # single data write: display changes confined to one column per addressed chip
                res.monitor("single_write_column")
                nchips = 2 if (lo >> 2) == 0 else 1
                cols_rs = {c for _, c in ro.get("px", [])}
                sel = RefLcd.decode(addr)[0]
                aligned = all(ref.chips[k].start % 8 == 0 for k in sel)
                if len(ro.get("px", [])) > 8 * nchips or len(cols_rs) > nchips:
                    res.violation(dict(tag, clause="data_write_changes_more_than_one_column", model="rs",
                                       start_aligned=aligned), case,
                                  {"step": i, "op": op, "pixels": ro["px"][:12]})
                    completed = False
                    break
                after = py.get_display_buffer()
                import numpy as np
                ch = np.argwhere(before != after)
                cols_py = {int(c) for _, c in ch}
                if len(ch) > 8 * nchips or len(cols_py) > nchips:
                    res.violation(dict(tag, clause="data_write_changes_more_than_one_column", model="py"), case,
                                  {"step": i, "op": op, "pixels": ch[:12].tolist()})
                    completed = False
                    break
        if completed and pixels:
            # the display is a function of the chips' state: a fresh controller replaying the same operations (and rendering
            # only now) must show the same picture as the one that has been rendering all along
            import numpy as np
            fresh = HD61202Controller()
            for kind2, addr2, val2 in h:
                if kind2 == "reset":
                    fresh.reset()
                elif kind2 == "w":
                    fresh.write(addr2, val2)
                else:
                    fresh.read(addr2)
            res.monitor("py_render_history_independent")
            a_, b_ = np.asarray(py.get_display_buffer()), np.asarray(fresh.get_display_buffer())
            if a_.shape != b_.shape or (a_ != b_).any():
                res.violation({"clause": "display_depends_on_earlier_renders", "model": "py"}, case,
                              {"pixels_differ": int((a_ != b_).sum()) if a_.shape == b_.shape else -1})
    return


def py_flipmap(res: Result, chip, page):
    """Flip every bit of one (chip,page) through the protocol on the Python model and diff the display."""
    import numpy as np
    from pce500.display.controller_wrapper import HD61202Controller
    ctl = HD61202Controller()
    ctl.write(0x2000, 0x01)
    base = ctl.get_display_buffer().copy()
    sel = 0x8 if chip == 0 else 0x4
    owners = []
    for col in range(64):
        for bit in range(8):
            ctl.write(0x2000 | sel, 0x80 | page)
            ctl.write(0x2000 | sel, 0x40 | col)
            ctl.write(0x2000 | sel | 2, 1 << bit)
            d = np.argwhere(base != ctl.get_display_buffer())
            owners.append((chip, page, col, bit, [(int(a), int(b)) for a, b in d]))
            ctl.write(0x2000 | sel, 0x40 | col)
            ctl.write(0x2000 | sel | 2, 0)
            res.monitor("py_pixel_map")
            res.nontrivial("pyflip", chip, page, col, bit)
    # a pixel is determined by ITS VRAM bit alone: switching the OTHER chip off (single-chip select) must not take away
    # or move the pixels this chip owns (sampled columns, all 8 bits)
    other = 0x4 if chip == 0 else 0x8
    ctl.write(0x2000 | other, 0x3E)
    base_off = ctl.get_display_buffer().copy()
    for col in (0, 1, 7, 8, 31, 55, 56, 63):
        for bit in range(8):
            ctl.write(0x2000 | sel, 0x80 | page)
            ctl.write(0x2000 | sel, 0x40 | col)
            ctl.write(0x2000 | sel | 2, 1 << bit)
            d = [(int(a), int(b)) for a, b in np.argwhere(base_off != ctl.get_display_buffer())]
            ctl.write(0x2000 | sel, 0x40 | col)
            ctl.write(0x2000 | sel | 2, 0)
            res.monitor("py_pixel_map_other_chip_off")
            want = owners[col * 8 + bit][4]
            if d != want:
                res.violation({"clause": "pixel_depends_on_other_chip_power", "model": "py"},
                              {"chip": chip, "page": page, "col": col, "bit": bit}, {"both_on": want[:4], "other_off": d[:4]})
    return owners


def judge_map(res: Result, owners, model, complete):
    """owners: list of (chip,page,col,bit,[pixels]). Each flip <= 1 pixel; (if complete) every pixel exactly one owner;
    left chip (0) columns 56-63 own no pixel."""
    seen = {}
    for chip, page, col, bit, px in owners:
        if len(px) > 1:
            res.violation({"clause": "vram_bit_drives_several_pixels", "model": model}, {"chip": chip, "page": page, "col": col, "bit": bit},
                          {"pixels": px[:8]})
        if chip == 0 and col >= 56 and px:
            res.violation({"clause": "hidden_column_drives_pixel", "model": model}, {"chip": chip, "page": page, "col": col, "bit": bit},
                          {"pixels": px[:8]})
        for p in px:
            p = tuple(p)
            if p in seen:
                res.violation({"clause": "pixel_has_two_owners", "model": model}, {"pixel": p},
                              {"owners": [seen[p], (chip, page, col, bit)]})
            seen[p] = (chip, page, col, bit)
    if complete:
        missing = [(r_, c_) for r_ in range(32) for c_ in range(240) if (r_, c_) not in seen]
        if missing:
            res.violation({"clause": "pixel_without_owner", "model": model}, {"count": len(missing)}, {"first": missing[:10]})
    return seen


def plan(tier, seed):
    specs = []
    idx = 0
    parts = 8 if tier == "quick" else 32
    for i in range(parts):
        specs.append({"kind": "hist", "part": i, "parts": parts, "seed": seed, "tier": tier, "idx": idx}); idx += 1
    nenum = 4 if tier == "quick" else 24
    for i in range(nenum):
        specs.append({"kind": "enum", "part": i, "parts": nenum, "seed": seed, "tier": tier, "idx": idx}); idx += 1
    for chip in range(2):
        for page in range(8):
            specs.append({"kind": "pyflip", "chip": chip, "page": page, "seed": seed, "tier": tier, "idx": idx}); idx += 1
    specs.append({"kind": "rsflip", "seed": seed, "tier": tier, "idx": idx}); idx += 1
    return specs


def run_shard(spec) -> Result:
    res = Result()
    r = rng(spec["seed"], "c15", spec["idx"])
    kind = spec["kind"]
    if kind == "hist":
        n = (1000 if spec["tier"] == "quick" else 40000) // spec["parts"]
        hs = [gen_history(r, r.randrange(20, 200 if spec["tier"] == "quick" else 500), clean=(j % 10) < 7)
              for j in range(n)]
        for lo in range(0, len(hs), 100):
            run_histories(res, hs[lo:lo + 100], pixels=(lo == 0))
        res.sample({"history": [list(o) for o in hs[0][:8]]})
    elif kind == "enum":
        import itertools
        depth = 2 if spec["tier"] == "quick" else 3
        hs = []
        for k, combo in enumerate(itertools.product(range(len(ALPHABET)), repeat=depth)):
            if k % spec["parts"] != spec["part"]:
                continue
            # a fixed prelude makes reads observable (display on, a few bytes in VRAM)
            hs.append([("w", 0x2000, 0x01), ("w", 0x2002, 0x5A), ("w", 0x2002, 0xC3)] + [ALPHABET[i] for i in combo])
        for lo in range(0, len(hs), 400):
            run_histories(res, hs[lo:lo + 400], pixels=False)
        res.count("enumerated_sequences", len(hs))
    elif kind == "pyflip":
        owners = py_flipmap(res, spec["chip"], spec["page"])
        res.evaluations += len(owners)
        judge_map(res, owners, "py", complete=False)
        # shard-local ownership table is merged in finalize through counters
        res.tables["py_owned_pixels"] = {f"{p[0]},{p[1]}": 1 for _, _, _, _, px in owners for p in px}
        if spec["chip"] == 1 and spec["page"] == 0:
            res.sample({"bit": [1, 0, 0, 0], "pixels": owners[0][4]})
    else:
        from .. import rust
        base_pix = {}
        for sl in (0, 8, 17, 32, 63):
            out = rust.run("lcd", [{"id": 0, "ops": [["flipmap", sl]], "pixels": False}], timeout=1200)[0]
            owners = [(c, p, col, b, [tuple(x) for x in px]) for c, p, col, b, px in out["out"][0]["flipmap"]]
            res.evaluations += len(owners)
            for o in owners:
                res.monitor("rs_pixel_map")
                if sl == 0:
                    res.nontrivial("rsflip", o[0], o[1], o[2], o[3])
            judge_map(res, owners, f"rs(start_line={sl})" if sl else "rs", complete=True)
            # HD61202 "display start line" (Z): the RAM line shown at the top. A model that renders it at all must scroll
            # by whole lines: the pixel that shows (chip, line l, column) under start line 0 shows (chip, (l+s) mod 64,
            # column) under start line s. The layout itself is whatever the s=0 map says; a model that ignores the start
            # line when rendering (all maps equal, as the Python one) is not judged.
            pix = {}
            for c, pg, col, b, px in owners:
                for xy in px:
                    pix.setdefault(tuple(xy), []).append((c, pg * 8 + b, col))
            if sl == 0:
                base_pix = pix
            elif pix != base_pix:
                bad = [(xy, base_pix[xy], pix.get(xy)) for xy in sorted(base_pix)
                       if len(base_pix[xy]) == 1 and
                       pix.get(xy) != [(base_pix[xy][0][0], (base_pix[xy][0][1] + sl) % 64, base_pix[xy][0][2])]]
                res.monitor("rs_start_line_rotation", len(base_pix))
                if bad:
                    res.violation({"clause": "start_line_not_a_line_rotation", "model": "rs", "aligned": sl % 8 == 0},
                                  {"start_line": sl, "pixels": [list(b[0]) for b in bad[:6]]},
                                  {"count": len(bad), "first": repr(bad[0])[:200]})
    return res


def finalize(merged: Result, tier, seed):
    owned = merged.tables.get("py_owned_pixels", {})
    n = len(owned)
    dup = [k for k, v in owned.items() if v > 1]
    if dup:
        merged.violation({"clause": "pixel_has_two_owners", "model": "py"}, {"pixels": dup[:10]}, {"count": len(dup)})
    if n != 32 * 240:
        merged.violation({"clause": "pixel_without_owner", "model": "py"}, {"owned": n}, {"expected": 32 * 240})
    merged.counters["py_pixels_owned_exactly_once"] = n - len(dup)
    merged.tables.pop("py_owned_pixels", None)


def replay(case):
    return []
