"""C17 - every copy of the architecture's tables and constants says the same thing."""
from __future__ import annotations

from ..core import Result

PROPERTY = "C17"
LEVEL = "other"
NEEDS = ("rust",)
EXHAUSTIVE = {"quick": True, "thorough": True}
REQUIRED_MONITORS = ["opcode_entries", "register_tables", "constants", "pre_behaviour", "single_addressable_behaviour",
                     "vector_behaviour", "view_segments", "key_table", "decoded_operand_widths", "width_and_selector_behaviour"]
RULE = ("complete comparison of live tables dumped from the RUNNING code: 256 opcode entries (name, condition, reversed "
        "flag, operand shapes+widths) Python OPCODES vs Rust OPCODES; register names/widths/sub-register layout across "
        "arch.SC62015.regs, opcodes.REGISTERS/REG_SIZES, emulator.REGISTER_SIZE/_SUBREG_INFO, Rust mask_for/register_width; "
        "IMEM offsets, vectors, address-space, snapshot, timer, LCD and keyboard constants; plus BEHAVIOURAL recovery of the "
        "private Rust tables (15 PRE bytes x MV (m),(n); every single-IMEM-operand opcode under PRE 34/31; IR/RESET vectors) "
        "executed on both cores; view segments disjoint/in range/internal RAM at the lifter's address. "
        "distinct_nontrivial = number of distinct facts compared.")
EXPLANATION = ("Finite structural check at a quiescent point: every duplicated table/constant is read from the running "
               "Python modules and from the real Rust crate (harness `vrt tables`) and compared completely; the three "
               "private Rust tables are recovered by executing probes, which is also compared with the Python tables "
               "and the Python core's behaviour. Identical in both tiers.")
ASSUMPTIONS = ["two small projections map Python operand classes and Rust OperandKind Debug strings into one shape vocabulary",
               "width units are normalised explicitly (bytes vs bits; REGISTERS lists 4 for X/Y/U meaning 3 bytes)"]

IMEM = 0x100000


def plan(tier, seed):
    return [{"seed": seed, "tier": tier}]


def py_operand_shape(op):
    n = type(op).__name__
    if n == "Reg":
        return f"Reg({op.reg}, {op.width() * 8})"
    if n in ("RegIL", "RegIMR", "RegF", "RegB", "Reg3"):
        return n
    if n == "RegPair":
        return f"RegPair({op.size})"
    if n in ("Imm8", "Imm16", "Imm20"):
        return f"Imm({n[3:]})"
    if n == "ImmOffset":
        return "ImmOffset"
    if n in ("IMem8", "IMem16", "IMem20"):
        return f"IMem({n[4:]})"
    if n == "EMemAddr":
        return f"EMemAddrWidth({op.width()})"
    if n == "EMemReg":
        modes = {m.name for m in (op.allowed_modes or [])}
        if modes == {"POST_INC", "PRE_DEC"}:
            return "EMemRegModePostPre"
        return f"EMemRegWidth({op.width})"
    if n == "EMemIMem":
        return f"EMemIMemWidth({op._width})"
    if n == "RegIMemOffset":
        return "RegIMemOffset(DestImem)" if op.order.name == "DEST_IMEM" else "RegIMemOffset(DestRegOffset)"
    if n == "EMemIMemOffset":
        return "EMemImemOffsetDestIntMem" if op.order.name == "DEST_INT_MEM" else "EMemImemOffsetDestExtMem"
    return "?" + n


def run_shard(spec) -> Result:
    from .. import rust
    from ..pyside import FlatMem  # noqa: F401
    res = Result()
    from sc62015.pysc62015.instr import OPCODES
    from sc62015.pysc62015.instr import opcodes as O
    from sc62015.pysc62015.instr.opcodes import Opts, IMEMRegisters
    from sc62015.pysc62015 import constants as K
    from sc62015.pysc62015 import emulator as E
    from sc62015.arch import SC62015
    from pce500.keyboard_matrix import KEY_LOCATIONS
    import pce500.emulator as PE

    tables = rust.run("tables", [{"key_names": sorted(KEY_LOCATIONS)}])[0]
    facts = 0

    def fact(ok, clause, what, detail):
        nonlocal facts
        facts += 1
        res.evaluations += 1
        res.nontrivial(clause, what)
        if not ok:
            res.violation({"clause": clause, "what": what}, {"what": what}, detail)

    # ---- 1. opcode entries --------------------------------------------------------------
    ropc = {e["opcode"]: e for e in tables["opcodes"]}
    for opcode in range(256):
        res.monitor("opcode_entries")
        d = OPCODES.get(opcode)
        r = ropc.get(opcode)
        if d is None or r is None:
            fact(False, "opcode_entry", f"{opcode:02X}", {"python": d is not None, "rust": r is not None})
            continue
        cls, opts = d if isinstance(d, tuple) else (d, Opts())
        name = opts.name or cls.__name__
        shapes = [py_operand_shape(o) for o in (opts.ops or [])]
        fact(name == r["name"], "opcode_name", f"{opcode:02X}", {"python": name, "rust": r["name"]})
        fact(opts.cond == r["cond"], "opcode_cond", f"{opcode:02X}", {"python": opts.cond, "rust": r["cond"]})
        fact(opts.ops_reversed == r["ops_reversed"], "opcode_ops_reversed", f"{opcode:02X}",
             {"python": opts.ops_reversed, "rust": r["ops_reversed"]})
        fact(shapes == r["operands"], "opcode_operands", f"{opcode:02X}", {"python": shapes, "rust": r["operands"]})
    res.sample({"opcode": "56", "python": [py_operand_shape(o) for o in OPCODES[0x56][1].ops], "rust": ropc[0x56]["operands"]})

    # ---- 1b. operand widths of DECODED instructions (what the emulator executes) vs the mnemonic's width -----------
    # MVW/EXW move 2 bytes and MVP/EXP 3 bytes (Rust width_bits_for_kind: 16 / 24): every top-level memory operand that a
    # decoded instance hands to the lifter must have exactly that width, for every second byte that decodes
    from .. import states
    dec = states._dec()
    want_w = {"MVW": 2, "EXW": 2, "MVP": 3, "EXP": 3}
    for opcode in range(256):
        d = OPCODES.get(opcode)
        cls, opts = d if isinstance(d, tuple) else (d, Opts())
        name = opts.name or cls.__name__
        if name not in want_w:
            continue
        seen_any = False
        for b2 in range(0, 256, 1):
            ins = dec(bytes([opcode, b2, 0x10, 0x20, 0x30, 0x02, 0x00, 0x00]), 0x1000)
            if ins is None:
                continue
            widths = []
            for o in ins.operands():
                tn = type(o).__name__
                if tn.startswith(("IMem", "EMem")):
                    w = o.width() if callable(getattr(o, "width", None)) else getattr(o, "width", None)
                    widths.append((tn, w))
            if not widths:
                continue
            seen_any = True
            res.monitor("decoded_operand_widths")
            bad = [x for x in widths if x[1] != want_w[name]]
            if bad or b2 == 0x04:
                fact(not bad, "decoded_operand_width", f"{opcode:02X}", {"name": name, "b2": b2, "operands": widths,
                                                                         "want_bytes": want_w[name]})
            if bad:
                break
        if not seen_any:
            res.count("width_probe_no_memory_operand")
    # ---- 2. registers -------------------------------------------------------------------
    arch = SC62015()
    reg_sizes = {str(k): v for k, v in O.REG_SIZES.items()}
    emu_sizes = {k.name: v for k, v in E.REGISTER_SIZE.items() if not k.name.startswith("TEMP")}
    for name, info in arch.regs.items():
        res.monitor("register_tables")
        if name == "PS":
            continue
        size = info.size
        if name in reg_sizes:
            fact(reg_sizes[name] == size, "reg_size_arch_vs_REG_SIZES", name, {"arch": size, "REG_SIZES": reg_sizes[name]})
        if name in emu_sizes:
            fact(emu_sizes[name] == size, "reg_size_arch_vs_emulator", name, {"arch": size, "emulator": emu_sizes[name]})
        rw = tables["widths"].get(name)
        if rw is not None:
            fact((rw + 7) // 8 == size, "reg_size_arch_vs_rust_register_width", name, {"arch_bytes": size, "rust_bits": rw})
    # sub-register layout: arch (full reg, byte offset) vs emulator _SUBREG_INFO (base, bit shift, mask)
    for name, (base, shift, mask) in E.Registers._SUBREG_INFO.items():
        res.monitor("register_tables")
        n = name.name
        if n in arch.regs:
            info = arch.regs[n]
            fact(info.name == base.name and info.offset * 8 == shift and (1 << (info.size * 8)) - 1 == mask,
                 "subregister_layout", n, {"arch": (info.name, info.offset, info.size), "emulator": (base.name, shift, mask)})
    # masks: Python Registers behaviour vs Rust mask_for
    regs = E.Registers()
    for n in ("A", "B", "BA", "IL", "IH", "I", "X", "Y", "U", "S", "PC", "F", "FC", "FZ"):
        regs.set(E.RegisterName[n], 0xFFFFFFFF)
        got = regs.get(E.RegisterName[n])
        res.monitor("register_tables")
        fact(got == tables["masks"][n], "register_mask_python_vs_rust", n, {"python": got, "rust": tables["masks"][n]})
    # REGISTERS order = 3-bit selector encoding (README register encoding table)
    want_order = ["A", "IL", "BA", "I", "X", "Y", "U", "S"]
    fact([str(r[0]) for r in O.REGISTERS] == want_order, "register_selector_order", "REGISTERS",
         {"python": [str(r[0]) for r in O.REGISTERS]})

    # ---- 3. constants -------------------------------------------------------------------
    C = tables["consts"]
    pairs = [
        ("INTERNAL_MEMORY_START", K.INTERNAL_MEMORY_START, C["INTERNAL_MEMORY_START"]),
        ("INTERNAL_MEMORY_START(pce500)", PE.INTERNAL_MEMORY_START, C["INTERNAL_MEMORY_START"]),
        ("INTERNAL_MEMORY_LENGTH", K.INTERNAL_MEMORY_LENGTH, C["INTERNAL_SPACE"]),
        ("ADDRESS_SPACE_SIZE", K.ADDRESS_SPACE_SIZE, C["EXTERNAL_SPACE"] + C["INTERNAL_SPACE"]),
        ("PC_MASK", K.PC_MASK, tables["masks"]["PC"]),
        ("ENTRY_POINT_ADDR", O.ENTRY_POINT_ADDR, C["ROM_RESET_VECTOR_ADDR"]),
        ("DEFAULT_CPU_HZ", PE.DEFAULT_CPU_HZ, C["DEFAULT_CPU_HZ"]),
        ("MTI_PERIOD", PE.MTI_PERIOD_CYCLES_DEFAULT, C["DEFAULT_MTI_PERIOD"]),
        ("STI_PERIOD", PE.STI_PERIOD_CYCLES_DEFAULT, C["DEFAULT_STI_PERIOD"]),
        ("SNAPSHOT_MAGIC", PE.SNAPSHOT_MAGIC, C["SNAPSHOT_MAGIC"]),
        ("SNAPSHOT_VERSION", PE.SNAPSHOT_VERSION, C["SNAPSHOT_VERSION"]),
        ("SNAPSHOT_REGISTER_LAYOUT", [[n.upper(), w] for n, w in PE._SNAPSHOT_REGISTER_LAYOUT], C["SNAPSHOT_REGISTER_LAYOUT"]),
        ("ROM_WINDOW_START", PE.PCE500Emulator.INTERNAL_ROM_START, C["ROM_WINDOW_START"]),
        ("ROM_WINDOW_LEN", PE.PCE500Emulator.INTERNAL_ROM_SIZE, C["ROM_WINDOW_LEN"]),
        ("INTERNAL_RAM_START", PE.PCE500Emulator.INTERNAL_RAM_START, C["INTERNAL_RAM_START"]),
        ("INTERNAL_RAM_SIZE", PE.PCE500Emulator.INTERNAL_RAM_SIZE, C["INTERNAL_RAM_SIZE"]),
    ]
    for nm in ("KOL", "KOH", "KIL", "BP", "PX", "PY", "UCR", "USR", "RXD", "TXD", "IMR", "ISR", "SCR", "LCC", "SSR"):
        pairs.append((f"IMEM_{nm}", int(IMEMRegisters[nm]), C[f"IMEM_{nm}_OFFSET"]))
    from ..tok import IMEM_NAMES
    for nm, off in IMEM_NAMES.items():
        pairs.append((f"IMEM_README_{nm}", int(IMEMRegisters[nm]), off))
    try:
        from pce500.display.hd61202 import HD61202  # noqa: F401
        import pce500.display.hd61202 as HD
        for pn, rn in (("LCD_WIDTH", "LCD_CHIP_COLS"),):
            if hasattr(HD, pn):
                pairs.append((pn, getattr(HD, pn), C[rn]))
    except Exception:  # noqa: BLE001
        pass
    for what, a, b in pairs:
        res.monitor("constants")
        fact(a == b, "constant", what, {"python": a, "rust_or_doc": b})

    # ---- 4. keyboard name table ---------------------------------------------------------
    for key, loc in sorted(KEY_LOCATIONS.items()):
        res.monitor("key_table")
        code = (loc.column << 3) | loc.row
        fact(tables["keys"].get(key) == code, "key_matrix_code", key, {"python": code, "rust": tables["keys"].get(key)})

    # ---- 5. behavioural probes ----------------------------------------------------------
    behavioural(res, fact)

    # ---- 6. view segments ---------------------------------------------------------------
    from sc62015 import view as V
    for cls in (V.SC62015RomView, V.SC62015FullView):
        segs = cls.SEGMENTS
        res.monitor("view_segments")
        for s in segs:
            fact(0 <= s.start and s.start + s.length <= K.ADDRESS_SPACE_SIZE and s.length > 0, "segment_in_range",
                 f"{cls.__name__}:{s.name}", {"start": s.start, "length": s.length})
        for i, a in enumerate(segs):
            for b in segs[i + 1:]:
                fact(a.start + a.length <= b.start or b.start + b.length <= a.start, "segments_disjoint",
                     f"{cls.__name__}:{a.name}/{b.name}", {"a": (a.start, a.length), "b": (b.start, b.length)})
        ram = [s for s in segs if s.name == "Internal RAM"]
        fact(len(ram) == 1 and ram[0].start == K.INTERNAL_MEMORY_START and ram[0].length == K.INTERNAL_MEMORY_LENGTH,
             "internal_ram_segment", cls.__name__, {"segments": [(s.name, s.start, s.length) for s in ram]})
    # the address the lifter uses for (0): execute MV (00),A and observe the written address
    from .. import pyexec
    from .c04 import mk, base_regs
    from ..core import rng
    case = mk(bytes([0x32, 0xA0, 0x00]), dict(base_regs(rng(0, "c17")), BA=0x1234), {}, "MV", 0xA0, 0x32)
    obs = pyexec.run_case(case)
    waddr = [a for a, _ in obs.get("writes", [])]
    ram0 = [s for s in V.SC62015FullView.SEGMENTS if s.name == "Internal RAM"][0].start
    fact(waddr == [ram0], "lifter_internal_ram_address", "MV (00),A", {"written": waddr, "segment_start": ram0})
    res.counters["facts_compared"] = facts
    return res


def behavioural(res, fact):
    """Recover PRE modes, single-addressable set and vectors by executing probes on BOTH cores."""
    from .. import pyexec, rust
    from .c04 import mk
    from sc62015.pysc62015.instr import opcodes as O
    from sc62015.pysc62015.instr import OPCODES
    from sc62015.pysc62015.instr.opcodes import Opts
    bp, px, py = 0x10, 0x47, 0x81
    m, n = 0x05, 0x22
    regs = {"BA": 0, "I": 1, "X": 0x20000, "Y": 0x30000, "U": 0x40000, "S": 0x50000, "FC": 0, "FZ": 0, "FHI": 0}

    def cands(k):
        return {"(n)": k, "(BP+n)": (bp + k) & 0xFF, "(PX+n)": (px + k) & 0xFF, "(PY+n)": (py + k) & 0xFF,
                "(BP+PX)": (bp + px) & 0xFF, "(BP+PY)": (bp + py) & 0xFF}

    base_mem = {IMEM + 0xEC: bp, IMEM + 0xED: px, IMEM + 0xEE: py}

    def which(addr_off, k):
        hits = [name for name, off in cands(k).items() if off == addr_off]
        return hits[0] if len(hits) == 1 else f"?{addr_off:02X}"

    # (a) PRE table: PRE; MV (m),(n)  -> destination written, source read
    cases = []
    for pre in sorted(O.PRE_BY_OPCODE):
        mem = dict(base_mem)
        for name, off in cands(n).items():
            mem[IMEM + off] = 0xA0 + list(cands(n)).index(name)   # distinct source bytes
        cases.append((pre, mk(bytes([pre, 0xC8, m, n]), dict(regs), mem, "MV", 0xC8, pre)))
    rr = rust.run("exec", [dict(c, id=i) for i, (_, c) in enumerate(cases)])
    for (pre, case), r in zip(cases, rr):
        res.monitor("pre_behaviour")
        want = O.PRE_BY_OPCODE[pre].latch
        obs = pyexec.run_case(case)
        for core, writes in (("python", obs.get("writes", [])), ("rust", r["steps"][0].get("writes", []))):
            if len(writes) != 1:
                fact(False, "pre_probe", f"{pre:02X}:{core}", {"writes": writes})
                continue
            a, v = writes[0]
            first = which(a - IMEM, m)
            srcs = list(cands(n))
            second = srcs[v - 0xA0] if 0 <= v - 0xA0 < len(srcs) else f"?{v:02X}"
            fact(first == want.first.value and second == want.second.value, "pre_table_vs_behaviour", f"{pre:02X}:{core}",
                 {"table": (want.first.value, want.second.value), "behaviour": (first, second)})

    # (b) single-addressable set: opcodes with exactly one IMEM operand, under PRE 34 (PX+n / BP+n) and 31 (n / BP+PY):
    #     does the operand follow the FIRST or the SECOND mode?  compared: Python table, Python behaviour, Rust behaviour
    probes = []
    for opcode, d in sorted(OPCODES.items()):
        cls, opts = d if isinstance(d, tuple) else (d, Opts())
        ops = opts.ops or []
        imems = [o for o in ops if type(o).__name__ in ("IMem8", "IMem16", "IMem20")]
        others = [o for o in ops if o not in imems]
        if len(imems) != 1 or any(type(o).__name__ not in ("Reg", "RegIL", "Imm8", "Imm16", "Imm20", "RegB", "EMemAddr")
                                  for o in others):
            continue
        if cls.__name__ in ("JP_Abs",):
            continue
        probes.append(opcode)
    emem_first = {opcode for opcode in probes
                  if type(((OPCODES[opcode][1] if isinstance(OPCODES[opcode], tuple) else Opts()).ops or [None])[0]).__name__ == "EMemAddr"}
    pcases = []
    for opcode in probes:
        for pre in (0x34, 0x31):
            code = bytes([pre, opcode, n, 0x11, 0x22, 0x03])
            if opcode in emem_first:       # [lmn] comes first in the encoding, the internal-memory byte last
                code = bytes([pre, opcode, 0x40, 0x11, 0x02, n])
            mem = dict(base_mem)
            for k, off in enumerate(cands(n).values()):
                for j in range(3):
                    mem.setdefault(IMEM + ((off + j) & 0xFF), 0x30 + 8 * k + j)
            r2 = dict(regs, BA=0x5A7E, I=0x0102)
            pcases.append((opcode, pre, mk(code, r2, mem, "?", opcode, pre)))
    rr = rust.run("exec", [dict(c, id=i) for i, (_, _, c) in enumerate(pcases)])
    for (opcode, pre, case), r in zip(pcases, rr):
        res.monitor("single_addressable_behaviour")
        latch = O.PRE_BY_OPCODE[pre].latch
        obs = pyexec.run_case(case)
        table_first = opcode in O.SINGLE_ADDRESSABLE_OPCODES
        touched = {}
        py_t = {a - IMEM for a in obs.get("reads", []) if IMEM <= a < IMEM + 0xEC} | \
               {a - IMEM for a, _ in obs.get("writes", []) if IMEM <= a < IMEM + 0xEC}
        # Rust: reads are not reported per step by exec; use writes, else fall back to final register effect
        rs_t = {a - IMEM for a, _ in r["steps"][0].get("writes", []) if IMEM <= a < IMEM + 0xEC}
        c = cands(n)
        f_off, s_off = c[latch.first.value], c[latch.second.value]

        def verdict(t):
            if any(f_off <= x < f_off + 3 for x in t) and not any(s_off <= x < s_off + 3 for x in t):
                return "first"
            if any(s_off <= x < s_off + 3 for x in t) and not any(f_off <= x < f_off + 3 for x in t):
                return "second"
            return None
        def verdict_by_value(writes):
            # the internal-memory operand is the SOURCE of a store to external memory ([lmn] forms, D8-DB): the planted
            # bytes are different at every candidate offset, so the stored value names the offset that was read
            ext = [(a, v) for a, v in writes if a < IMEM]
            if not ext:
                return None
            names = list(c)
            k = (ext[0][1] - 0x30) // 8
            if not (0 <= k < len(names)) or (ext[0][1] - 0x30) % 8 != 0:
                return None
            return "first" if names[k] == latch.first.value else ("second" if names[k] == latch.second.value else None)
        pv = verdict(py_t) or verdict_by_value(obs.get("writes", []))
        if pv is not None:
            fact(pv == "first", "single_operand_follows_first_mode", f"{opcode:02X}/{pre:02X}:python",
                 {"behaviour": pv, "in_SINGLE_ADDRESSABLE_OPCODES": table_first})
        rv = verdict(rs_t) or verdict_by_value([tuple(w) for w in r["steps"][0].get("writes", [])])
        if rv is not None:
            fact(rv == "first", "single_operand_follows_first_mode", f"{opcode:02X}/{pre:02X}:rust", {"behaviour": rv})
        if pv is not None and rv is not None:
            fact(pv == rv, "single_operand_mode_python_vs_rust", f"{opcode:02X}/{pre:02X}", {"python": pv, "rust": rv})

    # (b2) opcodes with TWO internal-memory operands must NOT be in the single-addressable set of either core: under a
    #      PRE byte with different first/second modes the first operand follows the first and the second the second mode.
    two = []
    for opcode, d in sorted(OPCODES.items()):
        cls, opts = d if isinstance(d, tuple) else (d, Opts())
        ops = opts.ops or []
        if len(ops) == 2 and all(type(o).__name__ in ("IMem8", "IMem16", "IMem20") for o in ops) and cls.__name__ not in ("MVL", "MVLD", "EXL", "DADL", "DSBL", "ADCL", "SBCL"):
            two.append(opcode)
    tcases = []
    for opcode in two:
        dep = ("(n)", "(BP+n)", "(PX+n)", "(PY+n)")    # modes whose address depends on the operand byte
        good = [p_ for p_ in sorted(O.PRE_BY_OPCODE) if O.PRE_BY_OPCODE[p_].latch.first.value in dep and
                O.PRE_BY_OPCODE[p_].latch.second.value in dep and
                O.PRE_BY_OPCODE[p_].latch.first.value != O.PRE_BY_OPCODE[p_].latch.second.value]
        for pre in good[:3]:
            mem = dict(base_mem)
            for k, off in enumerate(cands(n).values()):
                for j in range(3):
                    mem[IMEM + ((off + j) & 0xFF)] = 0x40 + 8 * k + j
            for k, off in enumerate(cands(m).values()):
                for j in range(3):
                    mem.setdefault(IMEM + ((off + j) & 0xFF), 0x90 + 8 * k + j)
            tcases.append((opcode, pre, mk(bytes([pre, opcode, m, n, 0x00, 0x00]), dict(regs), mem, "?", opcode, pre)))
    rr = rust.run("exec", [dict(c, id=i) for i, (_, _, c) in enumerate(tcases)])
    for (opcode, pre, case), r in zip(tcases, rr):
        res.monitor("single_addressable_behaviour")
        latch = O.PRE_BY_OPCODE[pre].latch
        if latch.first.value == latch.second.value:
            continue
        obs = pyexec.run_case(case)
        t = {a - IMEM for a in obs.get("reads", []) if IMEM <= a < IMEM + 0xEC} | \
            {a - IMEM for a, _ in obs.get("writes", []) if IMEM <= a < IMEM + 0xEC}
        cm, cn = cands(m), cands(n)
        want_m, want_n = cm[latch.first.value], cn[latch.second.value]
        wrong_n = cn[latch.first.value]
        ok = (not t) or (any(want_n <= x < want_n + 3 for x in t) and not any(wrong_n <= x < wrong_n + 3 for x in t))
        fact(ok, "two_operand_second_mode", f"{opcode:02X}/{pre:02X}:python",
             {"touched": sorted(t), "second_operand_should_be_at": want_n, "first_mode_would_be": wrong_n,
              "in_SINGLE_ADDRESSABLE_OPCODES": opcode in O.SINGLE_ADDRESSABLE_OPCODES})
        fact(opcode not in O.SINGLE_ADDRESSABLE_OPCODES, "two_operand_opcode_in_single_addressable_table", f"{opcode:02X}", {})
        pw = sorted((a, v) for a, v in obs.get("writes", []) if IMEM <= a < IMEM + 0x100)
        rw = sorted((a, v) for a, v in r["steps"][0].get("writes", []) if IMEM <= a < IMEM + 0x100)
        if pw and rw:
            fact(pw == rw, "two_operand_modes_python_vs_rust", f"{opcode:02X}/{pre:02X}", {"python": pw[:4], "rust": rw[:4]})

    # (c) vectors: IR and RESET with different 3-byte values at 0xFFFFA and 0xFFFFD
    for name, code in (("IR", 0xFE), ("RESET", 0xFF)):
        mem = {0xFFFFA: 0x11, 0xFFFFB: 0x22, 0xFFFFC: 0x03, 0xFFFFD: 0x44, 0xFFFFE: 0x55, 0xFFFFF: 0x06}
        case = mk(bytes([code]), dict(regs), mem, name, code)
        obs = pyexec.run_case(case)
        r = rust.run("exec", [dict(case, id=0)])[0]
        res.monitor("vector_behaviour")
        vec = {0x32211: "0xFFFFA", 0x65544: "0xFFFFD"}
        pyv = vec.get(obs.get("PC"), hex(obs.get("PC", 0)))
        rsv = vec.get(r["steps"][0]["pc"], hex(r["steps"][0]["pc"]))
        want = "0xFFFFA" if name == "IR" else "0xFFFFD"
        fact(pyv == want, "vector_address", f"{name}:python", {"fetches_from": pyv, "tables_say": want})
        fact(rsv == want, "vector_address", f"{name}:rust", {"fetches_from": rsv, "tables_say": want})

    # (c2) effective width of the pointer registers, recovered by behaviour: INC r3 at 0xFFFFF must wrap to 0 with Z=1 and
    #      DEC r3 at 0 must give 0xFFFFF on BOTH cores for X, Y, U and S (the tables say 20 bits for all four)
    for sel, rname in ((4, "X"), (5, "Y"), (6, "U"), (7, "S")):
        for opc, start, want_v, want_z in ((0x6C, 0xFFFFF, 0, 1), (0x7C, 0, 0xFFFFF, 0)):
            rg = dict(regs)
            rg[rname] = start
            case = mk(bytes([opc, sel]), rg, {}, "INC" if opc == 0x6C else "DEC", opc)
            obs = pyexec.run_case(case)
            r = rust.run("exec", [dict(case, id=0)])[0]["steps"][0]
            res.monitor("register_tables")
            fact(obs["regs"][rname] == want_v and obs["FZ"] == want_z, "pointer_register_width_behaviour",
                 f"{rname}:{opc:02X}:python", {"value": obs["regs"][rname], "Z": obs["FZ"], "want": (want_v, want_z)})
            fact(r["regs"][rname] == want_v and ((r["f"] >> 1) & 1) == want_z, "pointer_register_width_behaviour",
                 f"{rname}:{opc:02X}:rust", {"value": r["regs"][rname], "Z": (r["f"] >> 1) & 1, "want": (want_v, want_z)})

    # (c3) immediate widths by behaviour: every opcode whose table entry has a 20-bit immediate is executed with the unused
    #      high nibble of the third immediate byte SET; (c4) register selectors of MV/EX r2,r2' / r3,r3' (ED, FD): all 256
    #      selector bytes.  Both cores must end in the same state (the tables describe ONE architecture).
    from .c06 import compare as cores_compare
    from .. import states
    dec = states._dec()
    wcases = []
    for opcode, d in sorted(OPCODES.items()):
        cls, opts = d if isinstance(d, tuple) else (d, Opts())
        shapes = [py_operand_shape(o) for o in (opts.ops or [])]
        name = opts.name or cls.__name__
        if "Imm(20)" in shapes and not name.startswith(("JP", "CALL")):
            rest = [0x10] if shapes[0].startswith("IMem") else ([0x04] if shapes[0] in ("Reg3",) else [])
            code = bytes([opcode] + rest + [0x34, 0x12, 0xF5])
            wcases.append((f"imm20:{opcode:02X}", mk(code, dict(regs, BA=0x5A7E), dict(base_mem), name, opcode)))
    for opcode in (0xED, 0xFD):
        for sel in range(256):
            rg = dict(regs, BA=0xFEDC, I=0xBA98, X=0x21234, Y=0x35678, U=0x49ABC, S=0x5DEF0)
            wcases.append((f"sel:{opcode:02X}:{sel:02X}", mk(bytes([opcode, sel]), rg, dict(base_mem), "?", opcode)))
    # (c6) relative jumps: the displacement byte is an UNSIGNED distance, the direction is in the opcode (table: ImmOffset
    #      '+' / '-'): forward and backward jumps with a displacement above 0x7F on both cores
    for opcode in (0x12, 0x13, 0x18, 0x19, 0x1A, 0x1B, 0x1C, 0x1D, 0x1E, 0x1F):
        for disp in (0x85, 0xFF, 0x7F, 0x80):
            for fl in ((0, 0), (1, 1)):
                wcases.append((f"rel:{opcode:02X}", mk(bytes([opcode, disp]), dict(regs, FC=fl[0], FZ=fl[1]), dict(base_mem), "?", opcode)))
    # (c5) the extent of the internal-memory window (address-space constants INTERNAL_MEMORY_START / length 0x100, kept
    #      separately by each core) by behaviour: single accesses to the first and the last offset, and block moves whose
    #      internal pointer steps over offset FF (it wraps to 00 inside the window on both cores)
    for code, rg, what in ((bytes([0x32, 0xA0, 0xFF]), dict(regs, BA=0x5AC3), "imem_window:last_offset_store"),
                           (bytes([0x32, 0xA0, 0x00]), dict(regs, BA=0x5AC3), "imem_window:first_offset_store"),
                           (bytes([0x32, 0x80, 0xFF]), dict(regs), "imem_window:last_offset_load"),
                           (bytes([0x32, 0xCB, 0xFE, 0x20]), dict(regs, I=4), "imem_window:block_up_over_FF"),
                           (bytes([0x32, 0xCB, 0x20, 0xFD]), dict(regs, I=5), "imem_window:block_source_up_over_FF"),
                           (bytes([0x32, 0xCF, 0x01, 0x30]), dict(regs, I=4), "imem_window:block_down_under_00")):
        mem = dict(base_mem)
        for off in range(0x100):
            mem.setdefault(IMEM + off, (0x11 * off + 7) & 0xFF)
        for a in (0x100, 0x101, 0x102, 0xFFFFE, 0xFFFFF):
            mem[a] = 0xE0 + (a & 0xF)
        wcases.append((what, mk(code, rg, mem, "?", code[1], 0x32)))
    rr = rust.run("exec", [dict(c, id=i) for i, (_, c) in enumerate(wcases)])
    for (what, case), r in zip(wcases, rr):
        obs = pyexec.run_case(case)
        if "exc" in obs or dec(bytes.fromhex(case["bytes"]), case["addr"]) is None:
            continue          # not a valid encoding for Python: nothing to compare (C01/C06 judge rejections)
        res.monitor("width_and_selector_behaviour")
        fields, det = cores_compare(case, obs, r)
        fact(not fields, "width_or_selector_behaviour", what.rsplit(":", 1)[0] if what.startswith("sel") else what,
             {"case": what, "fields": fields, "detail": {k: det[k] for k in list(det)[:4]}})

    # (d) the machine models keep their OWN copy of the interrupt vector address for hardware delivery (timer/key/ON):
    #     run a ROM whose vector at 0xFFFFA points to H1 while other plausible places hold different pointers, deliver a
    #     timer interrupt through step() on both real machines and see where control goes.
    from .. import machine
    from ..machine import le3, ROM_BASE, VECTOR, ENTRY
    from .c12 import key_codes
    h1, h2 = ROM_BASE + 0x100, ROM_BASE + 0x180
    reset = bytes([0x0F]) + le3(0xB9000) + bytes([0x32, 0xCC, 0xFB, 0x81, 0x00, 0x00, 0x00, 0x13, 0x05])
    scen = {"code": [[ROM_BASE, reset.hex()], [h1, "0001"], [h2, "0001"], [VECTOR, le3(h1).hex()], [ENTRY, le3(h2).hex()]],
            "regs": {"PC": ROM_BASE, "S": 0xB9000}, "imem": {0xFB: 0, 0xFC: 0},
            "timer": {"enabled": True, "mti": 3, "sti": 0, "kb_irq": False}}
    script = [("obs",)] + [("step",)] * 12
    for model, obs in (("python", machine.PyMachine(scen).run(script)),
                       ("rust", machine.run_rust([(scen, script)], key_codes())[0][0])):
        res.monitor("vector_behaviour")
        entered = [o["pc"] for a, o in zip(obs, obs[1:]) if o["S"] == ((a["S"] - 5) & 0xFFFFF)]
        got = entered[0] if entered else None
        where = "0xFFFFA" if got in (h1, h1 + 1) else ("0xFFFFD" if got in (h2, h2 + 1) else (hex(got) if got is not None else "no delivery"))
        fact(where == "0xFFFFA", "vector_address", f"hardware_delivery:{model}", {"control_went_to": where, "tables_say": "0xFFFFA"})


def replay(case):
    return []
