"""C03 - rendered operands name exactly the locations the lifted IL touches."""
from __future__ import annotations

from ..core import Result, rng
from .. import enc

PROPERTY = "C03"
LEVEL = "exploration"
NEEDS = ()
EXHAUSTIVE = {"quick": False, "thorough": False}
REQUIRED_MONITORS = ["location_oracle"]
RULE = ("every accepted (prefix x opcode x second byte) head (quick: 14 second bytes; thorough: all 256) is executed on "
        "the real Emulator under logging memory/registers in 'distinguishing' states (BP, PX, PY chosen so that n, BP+n, "
        "PX+n, PY+n, BP+PX, BP+PY are >= 4 apart for every operand; X/Y/U/S and planted indirect pointers in disjoint "
        "windows; I in {1,2,3,7} for counted forms). Oracle: memory write set == locations denoted by the TEXT (parsed "
        "from the token stream) under the README addressing rules; data reads within the denoted locations and covering "
        "the required ones; pointer registers move by the ++/-- and width the text implies. distinct_nontrivial = "
        "distinct judged (prefix,opcode,second byte) heads whose text has at least one memory operand.")
ASSUMPTIONS = ["reference addressing rules transcribed from sc62015/pysc62015/README.md",
               "cases the README does not determine (wrap-arounds, aliasing pointer/data registers, undocumented "
               "register-class combinations) are counted as unjudged, not judged"]


def plan(tier, seed):
    specs = enc.plan_heads(tier)
    for i, s in enumerate(specs):
        s.update(seed=seed, tier=tier, idx=i)
    for order in ("asc", "desc"):
        specs.append({"kind": "siblings", "order": order, "seed": seed, "tier": tier, "idx": 9000 + len(specs)})
    return specs


def sig_for(case, j, clause, fields):
    from ..judge import case_tags
    opc = case.get("opc")
    return {"clause": clause, "op": f"{opc:02X}" if opc is not None else "--",
            "tags": case_tags(case, j["ops"]), "fields": fields}


def run_one(res, case):
    from .. import pyexec, judge
    obs = pyexec.run_case(case)
    if "exc" in obs:
        if str(obs.get("name", "")).startswith("???"):
            res.count("unknown_instruction_skipped")
            return
        res.violation({"clause": "execution_raises", "op": f"{case['opc']:02X}", "exc": obs["exc"].split(":")[1]},
                      _slim(case), obs["exc"])
        return
    j = judge.judge(case, obs)
    res.monitor("location_oracle")
    if j["unjudged"]:
        res.table("unjudged", j["unjudged"].split(":")[0])
        return
    res.count("judged")
    has_mem = any(d["k"] != "reg" and d["k"] != "imm" and d["k"] != "rel" for d in j["ops"])
    if has_mem:
        res.nontrivial(case["pfx"], case["op"], case["b2"])
    res.table("judged_by_prefix", "none" if case["preb"] is None else f"{case['preb']:02X}")
    for clause, fields, det in j["c03"]:
        res.violation(sig_for(case, j, clause, fields), _slim(case), det)
    if len(res.samples) < 4 and has_mem:
        from ..pyside import tokens_text
        res.sample({"bytes": case["bytes"][:2 * case["len"]], "text": tokens_text(obs["tokens"]),
                    "writes": [f"{a:06X}" for a, _ in obs["writes"]][:6],
                    "reads": sorted({f"{a:06X}" for a in obs["reads"]})[:8]})


def _slim(case):
    return {k: case[k] for k in ("bytes", "addr", "regs", "mem", "flavour", "pfx", "op", "b2", "mn", "opc", "preb", "len", "dontcare")
            if k in case}


def run_siblings(spec, res):
    """All opcodes that share a mnemonic (CMP 60-63/B7, MV ..., CMPW C6/D6, ...) decoded and executed back to back in ONE
    process, under every prefix, in ascending (shard 'asc') or descending ('desc') opcode order: whatever the first form
    leaves behind (a table keyed by mnemonic and prefix, a shared operand object) must not change which locations the
    second form's text names or its IL touches."""
    from .. import states
    from sc62015.pysc62015.instr.opcode_table import OPCODES
    r = rng(spec["seed"], "c03sib", spec["order"])
    groups = {}
    for opcode, d in sorted(OPCODES.items()):
        cls = d[0] if isinstance(d, tuple) else d
        groups.setdefault(cls.__name__, []).append(opcode)
    pairs = 0
    for pfx in enc.PREFIXES:
        for name, ops in sorted(groups.items()):
            if len(ops) < 2:
                continue
            order = ops if spec["order"] == "asc" else list(reversed(ops))
            for op in order:
                for b2 in (0x04, 0x24, 0x86, 0x35):
                    case = states.build_case(r, pfx, op, b2, "dist")
                    res.evaluations += 1
                    if case is None:
                        continue
                    res.monitor("sibling_history")
                    run_one(res, case)
                    pairs += 1
                    break
    res.count("sibling_cases", pairs)


def run_shard(spec) -> Result:
    from .. import states
    res = Result()
    if spec.get("kind") == "siblings":
        run_siblings(spec, res)
        return res
    r = rng(spec["seed"], "c03", spec["idx"])
    nstates = 2 if spec["tier"] == "quick" else 3
    for (pfx, op, b2) in enc.shard_heads(spec):
        for k in range(nstates):
            case = states.build_case(r, pfx, op, b2, "dist")
            res.evaluations += 1
            if case is None:
                res.count("rejected")
                break
            if not case.get("distinct_bases", True):
                res.count("indistinct_bases")
            run_one(res, case)
    return res


def replay(case):
    from .. import pyexec, judge
    obs = pyexec.run_case(case)
    if "exc" in obs:
        return [{"clause": "execution_raises", "detail": obs["exc"]}]
    j = judge.judge(case, obs)
    return [{"clause": c, "fields": f, "detail": d} for c, f, d in j["c03"]]
