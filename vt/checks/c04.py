"""C04 - lifted IL computes the documented result and flags, and nothing else."""
from __future__ import annotations

from ..core import Result, rng
from .. import enc

PROPERTY = "C04"
LEVEL = "exploration"
NEEDS = ()
EXHAUSTIVE = {"quick": False, "thorough": False}
REQUIRED_MONITORS = ["value_oracle", "alu_table"]
RULE = ("(a) 8-bit operation tables on the real Emulator: every (a,b,carry-in) for ADD/SUB/ADC/SBC/AND/OR/XOR/CMP/TEST "
        "'A,n' and PMDF '(m),n' (thorough: all 2^17 each; quick: stratified 4096 + boundaries), every (a,carry) for "
        "INC/DEC/ROR/ROL/SHR/SHL/SWAP on A and on (n), valid-BCD (a,b,c) for DADL/DSBL; (b) every other encoding via the "
        "structural heads with boundary operand values planted at the locations the text denotes; (c) counted forms with "
        "I in 1..8,16,255 and all-FF / all-99 carry chains. Oracle: complete architectural post-state (BA,I,X,Y,U,S,PC,C,Z, "
        "every written byte, and every byte outside the documented write set unchanged) == README reference. "
        "distinct_nontrivial = distinct judged (opcode, prefix, operand-value class) cases.")
ASSUMPTIONS = ["reference semantics transcribed from README instruction tables; outputs the README does not determine "
               "are don't-care (BCD with invalid digits, C after SWAP, C/Z after HALT/OFF, DSLL/DSRL digit arithmetic, "
               "DADL carry-in, multi-byte Z when only the last byte is zero)"]

BIN_OPS = {"ADD": 0x40, "SUB": 0x48, "ADC": 0x50, "SBC": 0x58, "AND": 0x70, "OR": 0x78, "XOR": 0x68,
           "CMP": 0x60, "TEST": 0x64}
UN_A = {"ROR": 0xE4, "ROL": 0xE6, "SHR": 0xF4, "SHL": 0xF6, "SWAP": 0xEE}
UN_M = {"INC": 0x6D, "DEC": 0x7D, "ROR": 0xE5, "ROL": 0xE7, "SHR": 0xF5, "SHL": 0xF7}
BVALS = [0, 1, 0x0F, 0x10, 0x7F, 0x80, 0xFE, 0xFF]
IMEM = 0x100000


def base_regs(r):
    return {"BA": r.randrange(1 << 16), "I": r.randrange(1 << 16), "X": 0x20000 + r.randrange(0x1000),
            "Y": 0x30000 + r.randrange(0x1000), "U": 0x40000 + r.randrange(0x1000),
            "S": 0x50000 + r.randrange(0x1000), "FC": 0, "FZ": r.randrange(2), "FHI": 0}


def mk(code: bytes, regs, mem, mn, opc, preb=None):
    return {"bytes": (code + b"\x00\x00").hex(), "addr": 0x12340, "regs": regs,
            "mem": {str(k): v for k, v in mem.items()}, "flavour": "alu", "pfx": preb, "op": opc, "b2": 0,
            "mn": mn, "opc": opc, "preb": preb, "len": len(code)}


def plan(tier, seed):
    specs = []
    idx = 0
    # (a) tables
    for name in list(BIN_OPS) + ["PMDF"]:
        nchunks = 8 if tier == "thorough" else 1
        for ch in range(nchunks):
            specs.append({"kind": "bin", "name": name, "chunk": ch, "nchunks": nchunks, "seed": seed, "tier": tier, "idx": idx})
            idx += 1
    specs.append({"kind": "unary", "seed": seed, "tier": tier, "idx": idx}); idx += 1
    for name in ("DADL", "DSBL"):
        specs.append({"kind": "bcd", "name": name, "seed": seed, "tier": tier, "idx": idx}); idx += 1
    # (b) heads with planted boundary values
    for s in enc.plan_heads(tier if tier == "quick" else "thorough"):
        if tier == "thorough":
            # thorough: all opcodes x all prefixes, 64 second bytes per opcode (mode classes are covered by C03)
            s["seconds"] = sorted(set(enc.QUICK_SECOND + list(range(0, 256, 5))))
        s.update(kind="heads", seed=seed, tier=tier, idx=idx)
        specs.append(s)
        idx += 1
    # (c) counted
    specs.append({"kind": "counted", "seed": seed, "tier": tier, "idx": idx}); idx += 1
    return specs


def emit(res, case, klass):
    from .. import pyexec, judge
    from .c03 import _slim
    res.evaluations += 1
    obs = pyexec.run_case(case)
    if "exc" in obs:
        if str(obs.get("name", "")).startswith("???"):
            res.count("unknown_instruction_skipped")
            return
        res.violation({"clause": "execution_raises", "op": f"{case['opc']:02X}", "exc": obs["exc"].split(":")[1]},
                      _slim(case), obs["exc"])
        return
    j = judge.judge(case, obs)
    res.monitor("value_oracle")
    if j["unjudged"]:
        res.table("unjudged", j["unjudged"].split(":")[0])
        return
    res.nontrivial(case["opc"], case["preb"], klass)
    res.table("judged_by_mnemonic", j["mn"])
    for clause, fields, det in j["c04"]:
        sig = {"clause": clause, "op": f"{case['opc']:02X}", "tags": judge.case_tags(case, j["ops"]) + _vtags(case, j),
               "fields": fields}
        res.violation(sig, _slim(case), det)
    if len(res.samples) < 3:
        from ..pyside import tokens_text
        res.sample({"bytes": case["bytes"][:2 * case["len"]], "text": tokens_text(obs["tokens"]),
                    "pre": {k: case["regs"][k] for k in ("BA", "I", "FC")},
                    "post": {"BA": obs["regs"]["BA"], "I": obs["regs"]["I"], "C": obs["FC"], "Z": obs["FZ"]}})


def _vtags(case, j):
    """value-class tags used by known-finding predicates."""
    t = []
    if case["regs"]["FC"]:
        t.append("cin")
    return t


def run_shard(spec) -> Result:
    from .. import states
    res = Result()
    r = rng(spec["seed"], "c04", spec["idx"])
    tier = spec["tier"]
    kind = spec["kind"]
    if kind == "bin":
        name = spec["name"]
        if tier == "thorough":
            triples = ((a, b, c) for a in range(256) for b in range(256) for c in (0, 1)
                       if (a * 256 + b) % spec["nchunks"] == spec["chunk"])
        else:
            tr = {(a, b, c) for a in BVALS for b in BVALS for c in (0, 1)}
            while len(tr) < 4096:
                tr.add((r.randrange(256), r.randrange(256), r.randrange(2)))
            triples = sorted(tr)
        for (a, b, c) in triples:
            regs = base_regs(r)
            regs["FC"] = c
            if name == "PMDF":
                mem = {IMEM + 0x20: a}
                case = mk(bytes([0x32, 0x47, 0x20, b]), regs, mem, "PMDF", 0x47, 0x32)
            else:
                regs["BA"] = (regs["BA"] & 0xFF00) | a
                case = mk(bytes([BIN_OPS[name], b]), regs, {}, name, BIN_OPS[name])
            res.monitor("alu_table")
            emit(res, case, ("tbl", a, b, c))
    elif kind == "unary":
        for a in range(256):
            for c in (0, 1):
                for name, opc in UN_A.items():
                    regs = base_regs(r)
                    regs["FC"] = c
                    regs["BA"] = (regs["BA"] & 0xFF00) | a
                    res.monitor("alu_table")
                    emit(res, mk(bytes([opc]), regs, {}, name, opc), ("un", a, c))
                for name, opc in UN_M.items():
                    regs = base_regs(r)
                    regs["FC"] = c
                    res.monitor("alu_table")
                    emit(res, mk(bytes([0x32, opc, 0x31]), regs, {IMEM + 0x31: a}, name, opc, 0x32), ("unm", a, c))
                for sel, w in ((0, 1), (1, 1), (2, 2), (3, 2), (4, 3), (7, 3)):
                    for name, opc in (("INC", 0x6C), ("DEC", 0x7C)):
                        regs = base_regs(r)
                        regs["FC"] = c
                        regname = ["A", "IL", "BA", "I", "X", "Y", "U", "S"][sel]
                        v = a if w == 1 else {0: 0, 1: 0xFFFF if w == 2 else 0xFFFFF}.get(a, a * 257)
                        if regname == "A":
                            regs["BA"] = (regs["BA"] & 0xFF00) | (v & 0xFF)
                        elif regname == "IL":
                            regs["I"] = (regs["I"] & 0xFF00) | (v & 0xFF)
                        else:
                            regs[regname] = v
                        emit(res, mk(bytes([opc, sel]), regs, {}, name, opc), ("incdec", sel, a, c))
    elif kind == "bcd":
        name = spec["name"]
        vals = [(x // 10) * 16 + x % 10 for x in range(100)]
        step = 1 if tier == "thorough" else 7
        for ia in range(0, 100, 1):
            for ib in range(ia % step, 100, step):
                for c in (0, 1):
                    regs = base_regs(r)
                    regs["FC"] = c
                    regs["I"] = 1
                    opc = 0xC4 if name == "DADL" else 0xD4
                    mem = {IMEM + 0x40: vals[ia], IMEM + 0x50: vals[ib]}
                    res.monitor("alu_table")
                    emit(res, mk(bytes([0x32, opc, 0x40, 0x50]), regs, mem, name, opc, 0x32), ("bcd", ia, ib, c))
    elif kind == "heads":
        from .. import refisa, tok
        for (pfx, op, b2) in enc.shard_heads(spec):
            case = states.build_case(r, pfx, op, b2, "dist")
            if case is None:
                continue
            emit(res, case, ("dist", b2))
            # plant boundary values where the text's operands live, then run again
            for k in range(2 if tier == "quick" else 4):
                c2 = states.build_case(r, pfx, op, b2, "dist")
                if c2 is None:
                    break
                _plant_boundaries(r, c2)
                emit(res, c2, ("bnd", b2, k))
    elif kind == "counted":
        forms = [(0x32, 0x54, b"\x20\x60", "ADCL"), (0x32, 0x5C, b"\x20\x60", "SBCL"), (0x32, 0x55, b"\x20", "ADCL"),
                 (0x32, 0x5D, b"\x20", "SBCL"), (0x32, 0xC4, b"\x80\xC0", "DADL"), (0x32, 0xD4, b"\x80\xC0", "DSBL"),
                 (0x32, 0xCB, b"\x20\x60", "MVL"), (0x32, 0xCF, b"\x90\xD0", "MVLD"), (0x32, 0xC3, b"\x20\x60", "EXL"),
                 (0x32, 0xEC, b"\x90", "DSLL"), (0x32, 0xFC, b"\x20", "DSRL"),
                 (0x32, 0xD3, b"\x20\x00\x30\x02", "MVL"), (0x32, 0xDB, b"\x00\x30\x02\x20", "MVL"),
                 (0x32, 0xE3, b"\x24\x20", "MVL"), (0x32, 0xEB, b"\x24\x20", "MVL"),
                 (0x32, 0x56, b"\x84\x20\x05", "MVL"), (0x32, 0x5E, b"\xC4\x20\x05", "MVL"),
                 (0x32, 0xF3, b"\x00\x20\xA0", "MVL"), (0x32, 0xFB, b"\x80\xA0\x20\x07", "MVL")]
        counts = [1, 2, 3, 4, 5, 6, 7, 8, 16] + ([255] if tier == "thorough" else [])
        reps = 6 if tier == "thorough" else 2
        for (pfx, opc, tail, mn) in forms:
            for n in counts:
                for style in ("rand", "ff", "99", "zero"):
                    for _ in range(reps):
                        regs = base_regs(r)
                        regs["FC"] = r.randrange(2)
                        regs["I"] = n
                        mem = {IMEM + 0xA0: 0x00, IMEM + 0xA1: 0x60, IMEM + 0xA2: 0x06}
                        for o in range(0, 0xE0):
                            if IMEM + o in mem:
                                continue
                            if style == "ff":
                                mem[IMEM + o] = 0xFF
                            elif style == "99":
                                mem[IMEM + o] = 0x99
                            elif style == "zero":
                                mem[IMEM + o] = 0
                            elif mn in ("DADL", "DSBL", "DSLL", "DSRL"):
                                mem[IMEM + o] = (r.randrange(10) << 4) | r.randrange(10)
                        if mn in ("DADL", "DSBL") or style in ("99",):
                            regs["BA"] = (regs["BA"] & 0xFF00) | 0x99 if style == "99" else regs["BA"]
                        if n == 255:
                            # keep blocks inside internal memory: start low / (for decrementing forms) high
                            pass
                        case = mk(bytes([pfx, opc]) + tail, regs, mem, mn, opc, pfx)
                        emit(res, case, ("cnt", opc, n, style))
    return res


def _plant_boundaries(r, case):
    """Put boundary values into the registers and into the memory bytes the text's operands denote."""
    from .. import refisa, tok, pyexec
    from ..states import pre_reader
    regs = case["regs"]
    regs["BA"] = r.choice((0, 1, 0xFF, 0x100, 0x7FFF, 0x8000, 0xFFFF, 0x00FF, 0xFF00, r.randrange(1 << 16)))
    if case["mn"] not in states_counted():
        regs["I"] = r.choice((0, 1, 0xFF, 0x100, 0xFFFF, 0x8000, r.randrange(1 << 16)))
    try:
        emu, mem, _ = pyexec.make_emu(case, log=False)
        ins = emu.decode_instruction(case["addr"])
        mn, ops = tok.parse(ins.render())
    except BaseException:  # noqa: BLE001
        return
    ref = refisa.step(mn, ops, regs, pre_reader(case), case["addr"], case["len"])
    for a in sorted(ref.data_reads):
        if IMEM + 0xEC <= a <= IMEM + 0xEE:
            continue
        if not (case["addr"] <= a < case["addr"] + 16):
            case["mem"][str(a)] = r.choice(BVALS + [r.randrange(256)])


def states_counted():
    from ..states import COUNTED
    return COUNTED


def replay(case):
    from .. import pyexec, judge
    obs = pyexec.run_case(case)
    if "exc" in obs:
        return [{"clause": "execution_raises", "detail": obs["exc"]}]
    j = judge.judge(case, obs)
    return [{"clause": c, "fields": f, "detail": d} for c, f, d in j["c04"]]
