"""C08 - register aliasing, widths and flag packing after any sequence of writes."""
from __future__ import annotations

from ..core import Result, rng

PROPERTY = "C08"
LEVEL = "exploration"
NEEDS = ("rust", "deps")
EXHAUSTIVE = {"quick": False, "thorough": False}
REQUIRED_MONITORS = ["python_vs_reference", "rust_vs_reference", "python_vs_rust", "snapshot_roundtrip",
                     "cross_blob", "registers_set_contract"]
RULE = ("write sequences over the 14 register/flag names (A,B,BA,IL,IH,I,X,Y,U,S,PC,F,FC,FZ) with boundary + random 32-bit "
        "values: ALL ordered pairs of names x 10 boundary values x 10 boundary values (complete, both tiers) plus seeded "
        "random sequences of length 1-64; after EVERY write all 14 names are read from the real Python Registers "
        "(get/get_by_name/get_flag), the real Rust LlamaState and CoreRuntime named API, and compared with a reference "
        "register file written from the property statement; interleaved snapshot->apply round trips "
        "(CPURegistersSnapshot, collect/pack/unpack/apply_registers) and Python<->Rust blob exchange. An icontract "
        "postcondition on the real Registers.set watches every write. distinct_nontrivial = distinct write sequences.")
ASSUMPTIONS = ["reference register file = the property statement (8/16-bit, 20-bit pointers, IL write clears IH)",
               "F bits 2-7 are plain storage"]

NAMES = ["A", "B", "BA", "IL", "IH", "I", "X", "Y", "U", "S", "PC", "F", "FC", "FZ"]
BVALS = [0, 1, 0xFF, 0x100, 0xFFFF, 0x10000, 0xFFFFF, 0x100000, 0xFFFFFF, 0xFFFFFFFF]


class RefRegs:
    def __init__(self):
        self.v = {"BA": 0, "I": 0, "X": 0, "Y": 0, "U": 0, "S": 0, "PC": 0, "F": 0}

    def set(self, n, x):
        v = self.v
        if n == "A":
            v["BA"] = (v["BA"] & 0xFF00) | (x & 0xFF)
        elif n == "B":
            v["BA"] = (v["BA"] & 0x00FF) | ((x & 0xFF) << 8)
        elif n == "IL":
            v["I"] = x & 0xFF
        elif n == "IH":
            v["I"] = (v["I"] & 0x00FF) | ((x & 0xFF) << 8)
        elif n in ("BA", "I"):
            v[n] = x & 0xFFFF
        elif n in ("X", "Y", "U", "S", "PC"):
            v[n] = x & 0xFFFFF
        elif n == "F":
            v["F"] = x & 0xFF
        elif n == "FC":
            v["F"] = (v["F"] & ~1 & 0xFF) | (x & 1)
        elif n == "FZ":
            v["F"] = (v["F"] & ~2 & 0xFF) | ((x & 1) << 1)

    def get(self, n):
        v = self.v
        return {"A": v["BA"] & 0xFF, "B": v["BA"] >> 8, "IL": v["I"] & 0xFF, "IH": v["I"] >> 8,
                "FC": v["F"] & 1, "FZ": (v["F"] >> 1) & 1}.get(n, v.get(n))

    def all(self):
        return [self.get(n) for n in NAMES]


_contract = {"installed": False, "evals": 0}


def install_contract():
    """icontract postcondition on the REAL Registers.set (value read back == masked value; unrelated registers
    unchanged). Applied from the harness; stays on for every write the sequences perform."""
    if _contract["installed"]:
        return
    import icontract
    from sc62015.pysc62015 import emulator as em
    RN = em.RegisterName
    groups = {"BA": ("A", "B", "BA"), "I": ("IL", "IH", "I"), "F": ("F", "FC", "FZ")}

    def group_of(name):
        for g, members in groups.items():
            if name in members:
                return members
        return (name,)

    class RegContractBroken(Exception):
        pass

    def snap_all(self):
        return {n: em.Registers.get(self, RN[n]) for n in NAMES}

    def post(self, reg, value, OLD):
        _contract["evals"] += 1
        name = reg.name
        if name.startswith("TEMP"):
            return True
        now = {n: em.Registers.get(self, RN[n]) for n in NAMES}
        width_mask = {"A": 0xFF, "B": 0xFF, "IL": 0xFF, "IH": 0xFF, "BA": 0xFFFF, "I": 0xFFFF, "X": 0xFFFFF,
                      "Y": 0xFFFFF, "U": 0xFFFFF, "S": 0xFFFFF, "PC": 0xFFFFF, "F": 0xFF, "FC": 1, "FZ": 1}[name]
        if now[name] != (value & width_mask):
            return False
        untouched = [n for n in NAMES if n not in group_of(name)]
        return all(now[n] == OLD.before[n] for n in untouched)

    wrapped = icontract.snapshot(snap_all, name="before")(
        icontract.ensure(post, error=lambda self, reg, value: RegContractBroken(f"Registers.set({reg}, {value:#x})"))(
            em.Registers.set))
    em.Registers.set = wrapped
    _contract["installed"] = True
    _contract["exc"] = RegContractBroken


def plan(tier, seed):
    specs = []
    idx = 0
    # complete pair enumeration, split over 14 shards (by first name)
    for i, n in enumerate(NAMES):
        specs.append({"kind": "pairs", "first": n, "seed": seed, "tier": tier, "idx": idx}); idx += 1
    parts = 4 if tier == "quick" else 16
    for p in range(parts):
        specs.append({"kind": "random", "part": p, "parts": parts, "seed": seed, "tier": tier, "idx": idx}); idx += 1
    return specs


def check_sequences(res: Result, seqs, roundtrip_every):
    from .. import rust
    from sc62015.pysc62015.emulator import Registers, RegisterName
    from sc62015.pysc62015.stepper import CPURegistersSnapshot
    from pce500.emulator import _pack_register_bytes, _unpack_register_bytes
    install_contract()
    rr = rust.run("regs", [{"id": i, "seq": s, "roundtrip_every": roundtrip_every} for i, s in enumerate(seqs)])
    for seq, rout in zip(seqs, rr):
        res.evaluations += 1
        res.nontrivial(tuple(map(tuple, seq)))
        ref = RefRegs()
        py = Registers()
        case = {"seq": seq}
        for i, (name, val) in enumerate(seq):
            ref.set(name, val)
            try:
                if name in ("FC", "FZ") and i % 2:
                    py.set_flag(name[1], val)   # flags through the flag API as well (any value: truncated to bit 0)
                else:
                    py.set_by_name(name, val)
            except _contract["exc"] as e:
                res.violation({"clause": "registers_set_contract", "name": name}, case, str(e))
                break
            want = ref.all()
            got_py = [py.get(RegisterName[n]) for n in NAMES]
            got_py2 = [py.get_by_name(n) for n in NAMES[:12]] + [py.get_flag("C"), py.get_flag("Z")]
            res.monitor("python_vs_reference")
            if got_py != want or got_py2 != want:
                bad = [NAMES[k] for k in range(14) if got_py[k] != want[k] or got_py2[k] != want[k]]
                res.violation({"clause": "python_register_file", "written": name, "wrong": bad[:4]}, case,
                              {"step": i, "value": val, "got": got_py, "want": want})
                break
            rs = rout["after"][i]
            rs2 = rout["rt_after"][i]
            res.monitor("rust_vs_reference")
            if rs != want:
                bad = [NAMES[k] for k in range(14) if rs[k] != want[k]]
                res.violation({"clause": "rust_register_file", "written": name, "wrong": bad[:4]}, case,
                              {"step": i, "value": val, "got": rs, "want": want})
                break
            if rs2 != want:
                bad = [NAMES[k] for k in range(14) if rs2[k] != want[k]]
                res.violation({"clause": "rust_runtime_named_api", "written": name, "wrong": bad[:4]}, case,
                              {"step": i, "value": val, "got": rs2, "want": want})
                break
            fa = rout.get("flag_after", [None] * (i + 1))[i]
            if fa is not None:
                # the by-name flag API of the runtime (set_flag/get_flag) must truncate and alias like everything else
                if fa["regs"] != want or fa["fc"] != ref.get("FC") or fa["fz"] != ref.get("FZ"):
                    bad = [NAMES[k] for k in range(14) if fa["regs"][k] != want[k]]
                    res.violation({"clause": "rust_runtime_flag_api", "written": name, "wrong": bad[:4]}, case,
                                  {"step": i, "value": val, "got": fa, "want": want})
                    break
            aa = rout.get("acc_after", [None] * (i + 1))[i]
            if aa is not None:
                # the dedicated PC accessors pc()/set_pc() are another way of naming PC: same 20 bits
                res.monitor("rust_pc_accessors")
                if aa["regs"] != want or aa["pc_by_name"] != ref.get("PC"):
                    res.violation({"clause": "rust_pc_accessors", "written": name}, case,
                                  {"step": i, "value": val, "pc()": aa["regs"][10], "get_reg(PC)": aa["pc_by_name"],
                                   "want": ref.get("PC")})
                    break
            res.monitor("python_vs_rust")
            if roundtrip_every and (i + 1) % roundtrip_every == 0:
                # Python snapshot -> fresh
                snap = CPURegistersSnapshot.from_registers(py)
                fresh = Registers()
                snap.apply_to(fresh)
                got_f = [fresh.get(RegisterName[n]) for n in NAMES]
                res.monitor("snapshot_roundtrip")
                if got_f != want:
                    res.violation({"clause": "python_snapshot_roundtrip"}, case, {"step": i, "got": got_f, "want": want})
                    break
                d = snap.to_dict()
                if [d[k] for k in ("ba", "i", "x", "y", "u", "s", "pc", "f")] != [ref.get(k.upper()) for k in
                                                                                 ("ba", "i", "x", "y", "u", "s", "pc", "f")]:
                    res.violation({"clause": "python_snapshot_to_dict"}, case, {"step": i, "dict": d})
                    break
                blob = _pack_register_bytes(snap)
                rt = next((x for x in rout["roundtrips"] if x["at"] == i), None)
                if rt is None or "error" in rt:
                    res.violation({"clause": "rust_snapshot_roundtrip"}, case, {"step": i, "rt": rt})
                    break
                if rt["fresh"] != want:
                    res.violation({"clause": "rust_snapshot_roundtrip"}, case, {"step": i, "got": rt["fresh"], "want": want})
                    break
                if rt.get("temps_state") is not None:
                    res.monitor("rust_temp_roundtrip")
                    if rt["temps_fresh"] != rt["temps_state"] or 0 in rt["temps_state"]:
                        lost = [k for k in range(14) if rt["temps_fresh"][k] != rt["temps_state"][k]]
                        res.violation({"clause": "rust_snapshot_roundtrip_temps", "lost": lost[:4]}, case,
                                      {"step": i, "state": rt["temps_state"], "fresh": rt["temps_fresh"]})
                        break
                res.monitor("cross_blob")
                if blob.hex() != rt["blob"]:
                    res.violation({"clause": "register_blob_layout_differs"}, case,
                                  {"step": i, "python": blob.hex(), "rust": rt["blob"]})
                    break
                # Rust blob into Python
                un = _unpack_register_bytes(bytes.fromhex(rt["blob"]))
                snap2 = CPURegistersSnapshot(pc=un["pc"], ba=un["ba"], i=un["i"], x=un["x"], y=un["y"], u=un["u"],
                                             s=un["s"], f=un["f"])
                fresh2 = Registers()
                snap2.apply_to(fresh2)
                if [fresh2.get(RegisterName[n]) for n in NAMES] != want:
                    res.violation({"clause": "rust_blob_into_python"}, case, {"step": i})
                    break
    # Python blob into Rust (one per batch element, final state)
    blobs = []
    wants = []
    for seq in seqs[:200]:
        ref = RefRegs()
        py = Registers()
        for name, val in seq:
            ref.set(name, val)
            py.set_by_name(name, val)
        blobs.append(_pack_register_bytes(CPURegistersSnapshot.from_registers(py)).hex())
        wants.append(ref.all())
    rr2 = rust.run("regs", [{"id": i, "seq": [], "unpack_blob": b} for i, b in enumerate(blobs)])
    for b, w, o in zip(blobs, wants, rr2):
        res.monitor("cross_blob")
        if o.get("unpacked_applied") != w:
            res.violation({"clause": "python_blob_into_rust"}, {"blob": b}, {"got": o.get("unpacked_applied"), "want": w,
                                                                            "err": o.get("unpack_error")})
    # register snapshots through the Rust runtime's own files, two generations (see the harness): the third runtime must
    # read every scratch and architectural register as the second one did when it saved
    import os
    import tempfile
    gdir = tempfile.mkdtemp(prefix="c08gen-", dir=os.path.join(os.path.dirname(os.path.dirname(os.path.dirname(
        os.path.abspath(__file__)))), ".work"))
    try:
        for o in rust.run("regs", [{"id": 1000 + i, "seq": [], "rt_snapshot_dir": gdir} for i in range(6)]):
            g = o.get("generations") or {}
            res.monitor("rust_runtime_snapshot_generations")
            if g.get("error") or g.get("b") != g.get("c") or g.get("b_regs") != g.get("c_regs"):
                res.violation({"clause": "second_generation_snapshot_differs", "model": "rs",
                               "what": "temps" if g.get("b") != g.get("c") else "registers"}, {"id": o.get("id")},
                              {k: g.get(k) for k in ("error", "b", "c")})
    finally:
        import shutil
        shutil.rmtree(gdir, ignore_errors=True)
    res.monitors["registers_set_contract"] = _contract["evals"]


def run_shard(spec) -> Result:
    res = Result()
    r = rng(spec["seed"], "c08", spec["idx"])
    if spec["kind"] == "pairs":
        seqs = []
        a = spec["first"]
        for b in NAMES:
            for va in BVALS:
                for vb in BVALS:
                    # a junk prelude makes aliasing visible (non-zero neighbours), then the ordered pair
                    seqs.append([["BA", 0xA5C3], ["I", 0x5A3C], ["F", 0xF0 | (va & 3)], [a, va], [b, vb]])
        check_sequences(res, seqs, 5)
        res.sample({"seq": seqs[17]})
    else:
        n = (2000 if spec["tier"] == "quick" else 100000) // spec["parts"]
        seqs = []
        for _ in range(n):
            ln = r.randrange(1, 65)
            seqs.append([[r.choice(NAMES), r.choice(BVALS) if r.random() < 0.5 else r.randrange(1 << 32)]
                         for _ in range(ln)])
        for lo in range(0, len(seqs), 500):
            check_sequences(res, seqs[lo:lo + 500], r.choice((1, 3, 7)))
        res.sample({"seq": seqs[0][:8]})
    return res


def replay(case):
    res = Result()
    if "seq" in case:
        check_sequences(res, [case["seq"]], 1)
    return res.violations
