"""C09 - disassembled text reassembles to an equivalent instruction."""
from __future__ import annotations

from ..core import Result, rng
from .. import enc

PROPERTY = "C09"
LEVEL = "exploration"
NEEDS = ()
EXHAUSTIVE = {"quick": False, "thorough": False}
REQUIRED_MONITORS = ["listing_reassemble", "reassemble", "fixed_point"]
RULE = ("one case per DISTINCT TEXT SHAPE of the disassembler (mnemonic, operand kinds, addressing modes incl. the "
        "prefix-implied ones, offset sign, register operands) obtained from the structural heads and de-duplicated per "
        "shard, with operand-value variants (incl. values that collide with IMEM register names, 0x00, 0xFF). The rendered "
        "token stream is turned into assembler text exactly as the statement prescribes (numbers -> 0x literals, named "
        "IMEM registers by name, '.ORG <addr>' first) and fed to the real Assembler; the bytes are decoded again and "
        "compared on text, length and lifted IL; a second disassemble/assemble round must be a fixed point. "
        "distinct_nontrivial = distinct text shapes assembled.")
ASSUMPTIONS = ["equivalence is judged by the disassembler's own text and the lifter's own IL, not byte equality",
               "bits an instruction ignores need not survive"]

_arch = None


def _setup():
    global _arch
    if _arch is None:
        from ..pyside import FlatMem  # noqa: F401
        from sc62015.arch import SC62015
        _arch = SC62015()
    return _arch


def shape_of(tokens):
    from .. import tok
    try:
        mn, ops = tok.parse(tokens)
    except tok.TokError:
        return None, None, None
    parts = []
    for d in ops:
        k = d["k"]
        if k == "reg":
            parts.append("r:" + d["name"])
        elif k == "imm":
            parts.append(f"imm{d['w']}")
        elif k == "rel":
            parts.append("rel" + ("+" if d["v"] >= 0 else "-"))
        elif k == "imem":
            parts.append("(" + d["mode"] + (":named" if d.get("named") else "") + ")")
        elif k == "emem_abs":
            parts.append("[abs]")
        elif k == "emem_reg":
            parts.append(f"[{d['reg']}:{d['mode']}{'+' if d['disp'] > 0 else '-' if d['disp'] < 0 else ''}]")
        elif k == "emem_imem":
            parts.append("[(" + d["imem"]["mode"] + (":named" if d["imem"].get("named") else "") + ")" +
                         ("+" if d["disp"] > 0 else "-" if d["disp"] < 0 else ("+0" if d.get("has_disp") else "")) + "]")
    return mn, ops, (mn,) + tuple(parts)


def check_case(res, buf: bytes, addr: int):
    """-> (violations, shape, mech_tags)"""
    from ..pyside import il_shape, tokens_key, tokens_text, MockLowLevelILFunction
    from .. import tok
    from sc62015.pysc62015.instr import decode, OPCODES
    from sc62015.pysc62015.sc_asm import Assembler, AssemblerError
    arch = _setup()
    viol = []
    try:
        if arch.get_instruction_info(buf, addr) is None or arch.get_instruction_text(buf, addr) is None:
            return viol, None, None
    except BaseException:  # noqa: BLE001
        return viol, None, None
    ins = decode(buf, addr, OPCODES)
    toks = ins.render()
    mn, ops, shape = shape_of(toks)
    if shape is None or mn.startswith("???"):
        return viol, None, None
    L = ins.length()
    case = {"buf": buf[:L].hex(), "addr": addr, "text": tokens_text(toks)}
    tags = mech_tags(ins, ops)
    sigbase = {"op": f"{ins.opcode:02X}", "tags": tags}

    def v(clause, detail, fields=None):
        s = dict(sigbase, clause=clause)
        if fields:
            s["fields"] = fields
        viol.append({"sig": s, "case": case, "detail": detail})

    def assemble(tokens, at):
        src = f".ORG 0x{at:05X}\n    {tok.to_asm_text(tokens)}\n"
        return src, bytes(Assembler().assemble(src).as_binary())

    il1 = MockLowLevelILFunction()
    ins.lift(il1, addr)
    try:
        src, out = assemble(toks, addr)
    except AssemblerError as e:
        if res:
            res.monitor("reassemble")
        v("assembler_rejects_disassembler_text", {"source": tok.to_asm_text(toks), "error": str(e)[:300]})
        return viol, shape, tags
    except BaseException as e:  # noqa: BLE001
        v("assembler_crashes", {"source": tok.to_asm_text(toks), "error": f"{type(e).__name__}:{str(e)[:200]}"})
        return viol, shape, tags
    if res:
        res.monitor("reassemble")
    try:
        ins2 = decode(out, addr, OPCODES)
        accepted = arch.get_instruction_text(out, addr) is not None
    except BaseException as e:  # noqa: BLE001
        ins2, accepted = None, False
    if ins2 is None or not accepted:
        v("assembled_bytes_not_decodable", {"source": src, "bytes": out.hex()})
        return viol, shape, tags
    fields = []
    if tokens_key(ins2.render()) != tokens_key(toks):
        fields.append("text")
    if ins2.length() != len(out):
        fields.append("decoder_length_vs_emitted")
    # NOTE: a length different from the ORIGINAL bytes is not a violation by itself (a redundant or an
    # equivalent prefix byte may legitimately appear/disappear); it matters only through text/IL below.
    il2 = MockLowLevelILFunction()
    try:
        ins2.lift(il2, addr)
        if il_shape(il1) != il_shape(il2):
            fields.append("il")
    except BaseException:  # noqa: BLE001
        fields.append("il")
    if fields:
        v("reassembled_differs", {"source": src.strip(), "bytes_in": buf[:L].hex(), "bytes_out": out.hex(),
                                  "text_out": tokens_text(ins2.render())}, sorted(fields))
        return viol, shape, tags
    # second round must be a fixed point
    try:
        _, out2 = assemble(ins2.render(), addr)
        if res:
            res.monitor("fixed_point")
        if out2 != out:
            v("second_round_changes_bytes", {"round1": out.hex(), "round2": out2.hex()})
    except BaseException as e:  # noqa: BLE001
        v("second_round_fails", {"error": f"{type(e).__name__}:{str(e)[:200]}"})
    if not viol and "(" in tok.to_asm_text(toks) and not any(d["k"] == "rel" for d in ops):
        _CLEAN.append((tok.to_asm_text(toks), out))     # position-independent text that round-trips alone
    return viol, shape, tags


_CLEAN = []


def check_listing(res, entries, addr=0x30000):
    """Texts that round-trip one by one must also round-trip as ONE listing (a disassembly is re-assembled as a whole):
    bytes of the listing == concatenation of the single-line assemblies."""
    from sc62015.pysc62015.sc_asm import Assembler
    src = f".ORG 0x{addr:05X}\n" + "".join(f"    {t}\n" for t, _ in entries)
    want = b"".join(b for _, b in entries)
    res.monitor("listing_reassemble")
    try:
        got = bytes(Assembler().assemble(src).as_binary())
    except BaseException as e:  # noqa: BLE001
        res.violation({"clause": "listing_rejected"}, {"lines": [t for t, _ in entries]}, f"{type(e).__name__}:{str(e)[:200]}")
        return
    if got != want:
        res.violation({"clause": "listing_differs_from_single_lines"}, {"lines": [t for t, _ in entries]},
                      {"listing": got.hex(), "single_lines": want.hex()})


def mech_tags(ins, ops):
    """Structural tags for known-finding predicates (computed from the decoded text, not from outcomes)."""
    from .. import tok
    tags = []
    imems = [d for d in ops if d["k"] == "imem"]
    nested = [d["imem"] for d in ops if d["k"] == "emem_imem"]
    all_im = imems + nested
    if len(all_im) == 1 and all_im[0]["mode"] == "n" and not (ins._pre is None):
        tags.append("lone_direct_imem")
    if any(d["mode"] in ("bp+px", "bp+py") for d in all_im):
        tags.append("bp_px_py_operand")
    if any(d.get("named") for d in all_im):
        tags.append("named_imem")
    for d in all_im:
        if d["mode"] == "n" and not d.get("named") and d["n"] in tok.IMEM_NAMES.values():
            tags.append("numeric_offset_of_named_register")
    tags.append("pre" if ins._pre is not None else "nopre")
    if nested:
        tags.append("emem_imem")
    w = getattr(ins, "instr_name", "")
    if w in ("MVW", "MVP", "CMPW", "CMPP", "EXW", "EXP") or (w == "JP" and imems):
        tags.append("wide_imem")
    if len(all_im) == 2:
        tags.append("two_imem")
    if len(all_im) == 0 and ins._pre is not None:
        tags.append("pre_without_imem")
    if any(d["k"] == "imm" and d["w"] == 3 for d in ops) or any(d["k"] == "emem_abs" for d in ops):
        tags.append("has_20bit")
    if ins.opcode in (0x44, 0x45, 0x46, 0x4C, 0x4D, 0x4E) and ops and ops[0]["k"] == "reg":
        # README rows: 44/4C r2,r' - 45/4D r3,r' - 46/4E r1,r1': the text cannot express an opcode whose size class is
        # not the destination register's own class (only then is "same text, other opcode" unavoidable)
        from ..refisa import W
        cls = {0x44: 2, 0x4C: 2, 0x45: 3, 0x4D: 3, 0x46: 1, 0x4E: 1}[ins.opcode]
        if W.get(ops[0]["name"]) != cls:
            tags.append("regpair_class_not_destination_class")
    return sorted(set(tags))


def plan(tier, seed):
    specs = enc.plan_heads(tier)
    for i, s in enumerate(specs):
        s.update(seed=seed, tier=tier, idx=i)
    specs.append({"kind": "rel_listing", "seed": seed, "tier": tier, "idx": 899})
    if tier == "quick":
        # register-pair selector bytes completely (every ordered pair, both register orders): EX/MV r,r' and ADD/SUB r,r'
        for j, op in enumerate((0xED, 0xFD, 0x44, 0x45, 0x46, 0x4C, 0x4D, 0x4E)):
            specs.append({"prefixes": [0, 10], "ops": [op, op + 1], "seconds": "all", "seed": seed, "tier": tier,
                          "idx": 900 + j})
    return specs


def run_rel_listing(res):
    """Relative jumps of both directions in ONE listing (a disassembly re-assembled as a whole): JR/JRZ/JRNZ/JRC/JRNC +n and
    -n, each direction first once; the listing's bytes must be the original bytes."""
    from .. import tok
    from sc62015.pysc62015.instr import decode, OPCODES
    from sc62015.pysc62015.sc_asm import Assembler
    from binja_test_mocks.coding import Decoder
    for order in ((0x12, 0x13, 0x18, 0x19, 0x1A, 0x1B, 0x1C, 0x1D, 0x1E, 0x1F),
                  (0x13, 0x12, 0x19, 0x18, 0x1B, 0x1A, 0x1D, 0x1C, 0x1F, 0x1E)):
        for base in (0x30040, 0x4FF80):
            prog = b"".join(bytes([op, 0x04 + 3 * k]) for k, op in enumerate(order)) * 2
            lines = []
            ok = True
            for off in range(0, len(prog), 2):
                ins = decode(Decoder(prog[off:off + 2] + b"\x00\x00"), base + off, OPCODES)
                if ins is None:
                    ok = False
                    break
                lines.append(tok.to_asm_text(ins.render()))
            if not ok:
                continue
            src = f".ORG 0x{base:05X}\n" + "".join(f"    {t}\n" for t in lines)
            res.monitor("relative_jump_listing")
            res.evaluations += 1
            try:
                got = bytes(Assembler().assemble(src).as_binary())
            except BaseException as e:  # noqa: BLE001
                res.violation({"clause": "listing_rejected", "kind": "relative_jumps"}, {"lines": lines},
                              f"{type(e).__name__}:{str(e)[:200]}")
                continue
            if got != prog:
                res.violation({"clause": "listing_differs_from_original_bytes", "kind": "relative_jumps"}, {"lines": lines},
                              {"listing": got.hex(), "original": prog.hex()})


def run_shard(spec) -> Result:
    res = Result()
    _setup()
    if spec.get("kind") == "rel_listing":
        run_rel_listing(res)
        return res
    r = rng(spec["seed"], "c09", spec["idx"])
    seen = {}
    nvar = 2 if spec["tier"] == "quick" else 6
    cap = 420 if spec["tier"] == "quick" else 10 ** 9
    special = [0x00, 0xFF, 0xEC, 0xFB, 0xD4, 0xE6, 0xF2, 0x10]
    from sc62015.pysc62015.instr import decode, OPCODES
    arch = _setup()
    for (pfx, op, b2) in enc.shard_heads(spec):
        tail0 = enc.payload(spec["seed"], pfx, op, b2)
        buf0 = enc.head_bytes(pfx, op, b2, tail0)
        addr = 0x10000 + 0x100 * (op & 0x3F)
        try:
            if arch.get_instruction_info(buf0, addr) is None:
                continue
            ins = decode(buf0, addr, OPCODES)
        except BaseException:  # noqa: BLE001
            continue
        try:
            _, _, shape = shape_of(ins.render())
        except BaseException as e:  # noqa: BLE001
            # an accepted instruction that cannot be rendered has no text to reassemble: that is C01's clause
            # (info accepts => text accepts); counted here, not judged
            res.count("render_raises:" + type(e).__name__)
            continue
        if shape is None:
            continue
        key = (shape, ins._pre is not None and pfx)
        if seen.get(key, 0) >= nvar or len(seen) >= cap and key not in seen:
            continue
        k = seen.get(key, 0)
        seen[key] = k + 1
        if k == 0:
            tail = tail0
        else:
            tail = bytes(r.choice(special) if r.random() < 0.5 else r.randrange(256) for _ in range(5))
        buf = enc.head_bytes(pfx, op, b2, tail)
        res.evaluations += 1
        viol, shape2, tags = check_case(res, buf, addr)
        if shape2 is not None:
            res.nontrivial(shape2)
            res.table("shapes_by_mnemonic", shape2[0])
            if len(res.samples) < 3:
                res.sample({"bytes": buf.hex()[:16], "shape": list(shape2)})
        for x in viol:
            res.violation(x["sig"], x["case"], x["detail"])
        if len(_CLEAN) >= 8:
            check_listing(res, _CLEAN[:8])
            del _CLEAN[:8]
    return res


def replay(case):
    viol, _, _ = check_case(None, bytes.fromhex(case["buf"]) + b"\x00\x00\x00\x00\x00", case["addr"])
    return [{"sig": x["sig"], "detail": x["detail"]} for x in viol]
