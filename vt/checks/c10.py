"""C10 - program layout, labels, two-pass agreement, statelessness of the assembler."""
from __future__ import annotations

from ..core import Result, rng, khash

PROPERTY = "C10"
LEVEL = "exploration"
NEEDS = ()
EXHAUSTIVE = {"quick": False, "thorough": False}
REQUIRED_MONITORS = ["pass1_vs_pass2", "layout_walk", "single_instruction_metamorphic", "determinism", "page_rule"]
RULE = ("grammar-directed generator over asm.lark: 5-60 lines with labels (forward/backward/unused/on empty lines/on "
        "directives), sections code/text/data/bss in any order and re-entered, .ORG on pages 0,1,E,F, defb/defw/defl with "
        "numbers and symbols, defs, defm, and instructions from a pool of forms whose single-line assembly is stable "
        "(pool computed at run time) with symbolic operands wherever the grammar has `expression`; plus ALL 2-statement "
        "combinations of the construct classes. Monitors: (1) the real _get_statement_size / _encode_statement are wrapped "
        "from the harness and their per-line logs compared; (2) an independent layout walk over the generator's own AST "
        "predicts every statement address, label value and image byte; (3) each instruction's bytes == assembling it alone "
        "at the same origin with symbols substituted; (4) same text assembled by a fresh assembler, by one that has just "
        "assembled other (also failing) programs, and twice by one object; caches fingerprinted; (5) near jumps/calls to "
        "another 64 KiB page must be rejected, same page must encode target&0xFFFF. distinct_nontrivial = distinct programs "
        "that assembled and had >= 1 label reference.")
ASSUMPTIONS = ["'well-formed' is what the generator guarantees: unique labels, all references defined, no overlapping output",
               "rejections of constructs the grammar plainly admits are violations keyed by construct class"]

_wrapped = {"done": False, "sizes": [], "encodes": []}


def install_wrappers():
    if _wrapped["done"]:
        return
    from sc62015.pysc62015 import sc_asm
    orig_size = sc_asm.Assembler._get_statement_size
    orig_enc = sc_asm.Assembler._encode_statement

    def size_w(self, statement, line_num):
        n = orig_size(self, statement, line_num)
        _wrapped["sizes"].append((line_num, n))
        return n

    def enc_w(self, statement, line_num):
        b = orig_enc(self, statement, line_num)
        _wrapped["encodes"].append((line_num, self.current_address, len(b)))
        return b

    sc_asm.Assembler._get_statement_size = size_w
    sc_asm.Assembler._encode_statement = enc_w
    _wrapped["done"] = True


# ---- instruction pool ----------------------------------------------------------------------------
# (template, kind): {v8}/{v16}/{v20} numeric-or-symbol expression slots, {lbl} label slot (address), {rel} number
POOL_CANDIDATES = [
    ("NOP", "plain"), ("RET", "plain"), ("RETF", "plain"), ("SC", "plain"), ("RC", "plain"), ("HALT", "plain"),
    ("MV A, {v8}", "imm"), ("MV IL, {v8}", "imm"), ("MV BA, {v16}", "imm"), ("MV I, {v16}", "imm"),
    ("MV X, {v20}", "imm"), ("MV Y, {v20}", "imm"), ("MV U, {v20}", "imm"), ("MV S, {v20}", "imm"),
    ("ADD A, {v8}", "imm"), ("SUB A, {v8}", "imm"), ("AND A, {v8}", "imm"), ("OR A, {v8}", "imm"),
    ("XOR A, {v8}", "imm"), ("CMP A, {v8}", "imm"), ("TEST A, {v8}", "imm"), ("ADC A, {v8}", "imm"),
    ("MV A, [{v20}]", "imm"), ("MV [{v20}], A", "imm"), ("MV BA, [{v20}]", "imm"), ("MV [{v20}], X", "imm"),
    ("CMP [{v20}], {v8}", "imm"), ("AND [{v20}], {v8}", "imm"),
    ("MV (BP+{v8}), A", "imm"), ("MV A, (BP+{v8})", "imm"), ("MV (PX+{v8}), A", "imm"), ("ADD (BP+{v8}), {v8}", "imm"),
    ("MV (BP+{v8}), (PY+{v8})", "imm"), ("MVW (BP+{v8}), {v16}", "imm"), ("MVP (BP+{v8}), {v20}", "imm"),
    ("INC A", "plain"), ("DEC I", "plain"), ("INC X", "plain"), ("PUSHU A", "plain"), ("POPU BA", "plain"),
    ("PUSHS F", "plain"), ("POPS F", "plain"), ("PUSHU IMR", "plain"), ("EX A, B", "plain"), ("SWAP A", "plain"),
    ("MV A, [X]", "plain"), ("MV [Y++], A", "plain"), ("MV A, [--U]", "plain"), ("MV BA, [X+{v8}]", "imm"),
    ("MV A, [X+{v8}]", "imm"), ("MV [Y-{v8}], A", "imm"), ("MV A, [(0x10)+{v8}]", "imm"), ("MV [(0x12)-{v8}], A", "imm"),
    ("MV (0x20), [X+{v8}]", "imm"), ("MV [Y-{v8}], (0x22)", "imm"), ("MVW (0x24), [X+{v8}]", "imm"),
    ("MVP (0x28), [(0x30)+{v8}]", "imm"), ("MV [(0x32)-{v8}], (0x34)", "imm"),
    ("MV A, B", "plain"), ("MV X, Y", "plain"), ("ADD BA, I", "plain"), ("ROR A", "plain"), ("SHL A", "plain"),
    ("JP {lbl}", "near"), ("JPZ {lbl}", "near"), ("JPNZ {lbl}", "near"), ("JPC {lbl}", "near"), ("JPNC {lbl}", "near"),
    ("CALL {lbl}", "near"), ("JPF {lbl}", "far"), ("CALLF {lbl}", "far"),
    ("JR +{rel}", "rel"), ("JRZ -{rel}", "rel"), ("JRNC +{rel}", "rel"),
    ("MV [{lbl}], A", "far"), ("MV X, {lbl}", "far"), ("MV A, [{lbl}]", "far"),
]
_pool = None


def stable_pool():
    """Forms whose single-line assembly works and is deterministic (so C09 defects do not masquerade as layout
    defects)."""
    global _pool
    if _pool is not None:
        return _pool
    from sc62015.pysc62015.sc_asm import Assembler
    out = []
    for tmpl, kind in POOL_CANDIDATES:
        src = tmpl.format(v8="0x12", v16="0x1234", v20="0x12345", lbl="0x0456", rel="0x05")
        try:
            a = bytes(Assembler().assemble(f".ORG 0x00100\n {src}\n").as_binary())
            b = bytes(Assembler().assemble(f".ORG 0x00100\n {src}\n").as_binary())
            if a and a == b:
                out.append((tmpl, kind, len(a)))
        except Exception:  # noqa: BLE001
            pass
    _pool = out
    return out


SECTION_BASE = {"code": 0x00000, "text": 0x00000, "data": 0x80000, "bss": 0x90000}


def gen_program(r, two=None):
    """-> dict(lines=[...], text=str, classes=set). Each line: dict(label?, kind, ...)."""
    pool = stable_pool()
    lines = []
    classes = set()
    nlabels = 0
    labels = []
    n = r.randrange(5, 61) if two is None else 0
    # choose distinct ORG bases so outputs never overlap: each section/org region gets its own 0x1000 window
    windows = [p * 0x10000 + w * 0x1000 for p in (0, 1, 0xE, 0xF) for w in range(1, 15)]
    r.shuffle(windows)
    used_sections = set()

    def new_label():
        nonlocal nlabels
        nlabels += 1
        return f"L{nlabels}_{r.randrange(1000)}"

    def mk_stmt(kind):
        if kind == "instr":
            tmpl, k, _ = r.choice(pool)
            return {"kind": "instr", "tmpl": tmpl, "ikind": k}
        if kind == "org":
            return {"kind": "org", "addr": windows.pop()}
        if kind == "section":
            s = r.choice(("code", "data", "bss", "text", "code", "data"))
            return {"kind": "section", "name": s}
        if kind == "defb":
            return {"kind": "defb", "args": [("num", r.randrange(256)) if r.random() < 0.7 else ("sym", None)
                                             for _ in range(r.randrange(1, 5))]}
        if kind == "defb_str":
            return {"kind": "defb_str", "s": "".join(r.choice("ABCxyz") for _ in range(r.randrange(1, 6)))}
        if kind == "defw":
            return {"kind": "defw", "args": [("num", r.randrange(1 << 16)) if r.random() < 0.6 else ("sym", None)
                                             for _ in range(r.randrange(1, 4))]}
        if kind == "defl":
            return {"kind": "defl", "args": [("num", r.randrange(1 << 20)) if r.random() < 0.5 else ("sym", None)
                                             for _ in range(r.randrange(1, 4))]}
        if kind == "defs":
            return {"kind": "defs", "n": r.randrange(0, 40)}
        if kind == "defm":
            toks = list("ABCxyz 0123_-")
            if r.random() < 0.3:
                # backslash sequences (always backslash + one more character, so the literal stays well formed): the
                # directive emits the characters of the string as written, and pass one must size exactly those
                toks += ["\\\\", "\\n", "\\t", "\\x41"] * 3
            return {"kind": "defm", "s": "".join(r.choice(toks) for _ in range(r.randrange(1, 12)))}
        if kind == "empty":
            return None
        raise ValueError(kind)

    kinds = ["instr"] * 10 + ["defb", "defw", "defl", "defs", "defm", "org", "section", "empty"]
    if two is not None:
        seq = list(two)
    else:
        seq = [r.choice(kinds) for _ in range(n)]
    # every program starts with an ORG so code does not start at 0 in every case (half of the time)
    if two is None and r.random() < 0.5:
        seq.insert(0, "org")
        # nothing has been placed at address 0 then: a later `.ORG 0` (numeric zero as a location) is a legal place to go
        if r.random() < 0.4:
            windows.insert(r.randrange(max(1, len(windows) - 6), len(windows)), 0x00000)
    expanded = []
    windowed = set()
    for kind in seq:
        expanded.append(kind)
    for kind in expanded:
        st = mk_stmt(kind)
        if st is not None and st["kind"] == "section" and st["name"] in ("text", "code"):
            # code and text share base address 0: give the (re-)entered section its own fresh window - except that a
            # section which already got its own window earlier in this program may simply be CONTINUED (its statements go
            # on where that section left off: the two names keep separate location counters)
            lines.append({"stmt": st})
            classes.add("section")
            if st["name"] in windowed and r.random() < 0.5:
                classes.add("section_continued")
                continue
            windowed.add(st["name"])
            st = {"kind": "org", "addr": windows.pop()}
        line = {"stmt": st}
        if r.random() < (0.35 if st is None or st["kind"] not in ("org", "section") else 0.15):
            line["label"] = new_label()
            labels.append(line["label"])
        if st is not None:
            classes.add(st["kind"])
            if st["kind"] == "section":
                used_sections.add(st["name"])
        lines.append(line)
    if two is None and lines and "label" not in lines[0] and r.random() < 0.5 and \
            (lines[0].get("stmt") or {"kind": "x"})["kind"] not in ("org", "section"):
        lines[0]["label"] = new_label()       # a label at the very first location of the default section (value 0)
        labels.append(lines[0]["label"])
    prog_flags = set()
    for i in range(len(lines) - 1):
        # the statement a label-only line is parsed together with: the next NON-EMPTY line (blank lines are whitespace)
        j = i + 1
        while j < len(lines) - 1 and lines[j].get("stmt") is None and "label" not in lines[j]:
            j += 1
        nxt = lines[j].get("stmt")
        if lines[i].get("stmt") is None and "label" in lines[i] and nxt is not None and nxt["kind"] in ("org", "section"):
            if two is None:
                labels.remove(lines[i]["label"])
                del lines[i]["label"]
            else:
                prog_flags.add("label_then_location_directive")
    if two is None and r.random() < 0.2:
        # page-edge tail: a near jump in the last window of a page, and a label exactly on the FIRST byte of the next page
        pg = r.choice((0x00000, 0xE0000))
        near = [t for t in pool if t[1] == "near"]
        if near:
            lines.append({"stmt": {"kind": "org", "addr": pg + 0xF000 + r.choice((0x000, 0xF00, 0xFF0, 0xFFD))}})
            tmpl, k, _ = r.choice(near)
            lines.append({"stmt": {"kind": "instr", "tmpl": tmpl, "ikind": k}})
            lines.append({"stmt": {"kind": "org", "addr": pg + 0x10000}})
            lab = new_label()
            lines.append({"label": lab, "stmt": {"kind": "instr", "tmpl": "NOP", "ikind": "plain"}})
            labels.append(lab)
            classes.update(("org", "instr"))
    if not labels:
        lines.append({"label": new_label(), "stmt": {"kind": "instr", "tmpl": "NOP", "ikind": "plain"}})
        labels.append(lines[-1]["label"])
    return {"lines": lines, "labels": labels, "classes": classes, "flags": prog_flags}


def layout(prog):
    """Independent layout walk: assigns an address to every line, values to labels, and checks page feasibility.
    Returns (addrs per line, symbols, section_of_line) using sizes from the pool's single-line lengths."""
    pool_len = {t: n for t, _, n in stable_pool()}
    # pass A: sizes
    ptr = dict(SECTION_BASE)
    cur = "code"
    addrs = []
    sect = []
    sizes = []
    for line in prog["lines"]:
        st = line.get("stmt")
        if st and st["kind"] == "section":
            cur = st["name"]
            ptr.setdefault(cur, max(ptr.values()))
            addrs.append(ptr[cur]); sect.append(cur); sizes.append(0)
            continue
        if st and st["kind"] == "org":
            ptr[cur] = st["addr"]
            addrs.append(ptr[cur]); sect.append(cur); sizes.append(0)
            continue
        a = ptr[cur]
        size = 0
        if st:
            k = st["kind"]
            if k == "instr":
                size = pool_len[st["tmpl"]]
            elif k == "defb":
                size = len(st["args"])
            elif k == "defw":
                size = 2 * len(st["args"])
            elif k == "defl":
                size = 3 * len(st["args"])
            elif k == "defs":
                size = st["n"]
            elif k in ("defm", "defb_str"):
                size = len(st["s"])
        addrs.append(a); sect.append(cur); sizes.append(size)
        ptr[cur] = a + size
    return addrs, sect, sizes, ptr


def render(prog, r):
    """Fill symbolic slots (needs label addresses from layout) and produce source text + expectations."""
    addrs, sect, sizes, endptr = layout(prog)
    # bss follows data: the statement says "each statement's bytes appear at the address implied by the preceding
    # statements of its section"; bss emits nothing, so only its labels matter.  They are judged by monitor (1) only.
    label_addr = {}
    for line, a in zip(prog["lines"], addrs):
        if "label" in line:
            label_addr[line["label"]] = a
    nonbss_labels = [l for line, s in zip(prog["lines"], sect) for l in ([line["label"]] if "label" in line else [])
                     if s != "bss"]
    texts = []
    expect = []   # per line: (addr, standalone_source or None, is_bss)
    refs = 0
    xpage = []    # lines with a near reference to another page (must be rejected)
    near20 = []   # lines with a near jump/call given as a 20-bit same-page numeric literal
    small_refs = []   # lines whose 8-bit slot is a label reference
    for i, (line, a, s) in enumerate(zip(prog["lines"], addrs, sect)):
        st = line.get("stmt")
        lab = (line["label"] + ": ") if "label" in line else ""
        if st is None:
            texts.append(lab.strip())
            expect.append((a, None, s == "bss"))
            continue
        k = st["kind"]
        if k == "section":
            texts.append(f"{lab}SECTION {st['name']}")
            expect.append((a, None, False))
        elif k == "org":
            texts.append(f"{lab}.ORG 0x{st['addr']:05X}")
            expect.append((a, None, False))
        elif k == "instr":
            def sym_or_num(bits):
                nonlocal refs
                if nonbss_labels and r.random() < 0.3:
                    refs += 1
                    l = r.choice(nonbss_labels)
                    return l, f"0x{label_addr[l]:X}"
                v = r.randrange(1 << bits)
                return f"0x{v:X}", f"0x{v:X}"
            slots, subst = {}, {}
            tm = st["tmpl"]
            if "{v8}" in tm:
                v = r.randrange(256)
                # keep IMEM offsets away from named registers when used inside (..)
                if "(" in tm:
                    v = r.randrange(0, 0xD0)
                slots["v8"] = subst["v8"] = f"0x{v:02X}"
                # a label whose value fits the byte slot (programs that start at address 0 have such labels): every
                # symbol reference must encode its definition's value, also in 8-bit immediates and +-n displacements
                # (not inside (BP+n)/(PX+n)/(PY+n): the assembler's IMEM operand rules take numbers only)
                small = [l for l in nonbss_labels if label_addr[l] < 0x100]
                slot_ok = ("+{v8}]" in tm or "-{v8}]" in tm or tm.endswith(", {v8}")) and "P+{v8}" not in tm \
                    and "PX+{v8}" not in tm and "PY+{v8}" not in tm
                if small and slot_ok and tm.count("{v8}") == 1 and r.random() < 0.5:
                    l = r.choice(small)
                    refs += 1
                    small_refs.append(i)
                    slots["v8"], subst["v8"] = l, f"0x{label_addr[l]:02X}"
            if "{v16}" in tm:
                slots["v16"], subst["v16"] = sym_or_num(16)
                if not slots["v16"].startswith("0x"):
                    # a label used as a 16-bit immediate: the assembler masks? keep numeric to stay well-formed
                    slots["v16"] = subst["v16"] = f"0x{r.randrange(1 << 16):04X}"
                    refs -= 1
            if "{v20}" in tm:
                slots["v20"], subst["v20"] = sym_or_num(20)
            if "{rel}" in tm:
                slots["rel"] = subst["rel"] = f"0x{r.randrange(0, 0x80):02X}"
            if "{lbl}" in tm:
                if st["ikind"] == "near" and s == "bss":
                    # the page of a bss statement depends on where data ends: keep these page-neutral
                    slots["lbl"] = subst["lbl"] = f"0x{r.randrange(1 << 16):04X}"
                elif st["ikind"] == "near":
                    same = [l for l in nonbss_labels if (label_addr[l] & 0xF0000) == (a & 0xF0000)]
                    other = [l for l in nonbss_labels if (label_addr[l] & 0xF0000) != (a & 0xF0000)]
                    edge = [l for l in nonbss_labels if label_addr[l] == (a & 0xF0000) + 0x10000]
                    zero = [l for l in other if label_addr[l] == 0]
                    if edge and r.random() < 0.6:
                        l = r.choice(edge)       # first byte of the NEXT page: still another page, must be rejected
                        xpage.append(i)
                    elif zero and r.random() < 0.5:
                        l = r.choice(zero)       # a label whose VALUE is 0, used from another page: rejected like any other
                        xpage.append(i)
                    elif other and r.random() < 0.08:
                        l = r.choice(other)
                        xpage.append(i)
                    elif same:
                        l = r.choice(same)
                    else:
                        l = None
                    if l is None:
                        if r.random() < 0.1:
                            slots["lbl"] = subst["lbl"] = f"0x{(a & 0xF0000) | r.randrange(1 << 16):05X}"
                            near20.append(i)
                        else:
                            slots["lbl"] = subst["lbl"] = f"0x{r.randrange(1 << 16):04X}"
                    else:
                        refs += 1
                        # standalone oracle uses the page-local 16-bit value (what a near jump encodes)
                        slots["lbl"], subst["lbl"] = l, f"0x{label_addr[l] & 0xFFFF:04X}"
                else:
                    if nonbss_labels:
                        l = r.choice(nonbss_labels)
                        refs += 1
                        slots["lbl"], subst["lbl"] = l, f"0x{label_addr[l]:05X}"
                    else:
                        slots["lbl"] = subst["lbl"] = f"0x{r.randrange(1 << 20):05X}"
            texts.append(f"{lab}{tm.format(**slots)}")
            expect.append((a, tm.format(**subst), s == "bss"))
        elif k in ("defb", "defw", "defl"):
            parts, sub = [], []
            for kind, v in st["args"]:
                if kind == "sym" and nonbss_labels:
                    l = r.choice(nonbss_labels)
                    refs += 1
                    parts.append(l)
                    sub.append(f"0x{label_addr[l]:X}")
                else:
                    v = v if v is not None else r.randrange(256)
                    parts.append(f"0x{v:X}")
                    sub.append(f"0x{v:X}")
            texts.append(f"{lab}{k} " + ", ".join(parts))
            expect.append((a, f"{k} " + ", ".join(sub), s == "bss"))
        elif k == "defs":
            texts.append(f"{lab}defs " + (f"0x{st['n']:X}" if st["n"] % 3 == 0 else str(st["n"])))
            expect.append((a, f"defs {st['n']}", s == "bss"))
        elif k == "defb_str":
            texts.append(f"{lab}defb \"{st['s']}\"")
            expect.append((a, f"defm \"{st['s']}\"", s == "bss"))   # same bytes as the string directive
        elif k == "defm":
            texts.append(f"{lab}defm \"{st['s']}\"")
            expect.append((a, f"defm \"{st['s']}\"", s == "bss"))
    prog["near20"] = near20
    prog["small_refs"] = small_refs
    return "\n".join(texts) + "\n", expect, label_addr, refs, xpage, sect


def image_of(binfile):
    img = {}
    for seg in binfile.segments:
        base = seg.address
        for i, b in enumerate(bytes(seg.data)):
            img[base + i] = b
    return img


def check_program(res, prog, r, pre_history=None):
    from sc62015.pysc62015.sc_asm import Assembler, AssemblerError, REVERSE_OPCODES_CACHE
    from .c01 import deep_fp, opcodes_fingerprint
    install_wrappers()
    text, expect, label_addr, refs, xpage, sect = render(prog, r)
    case = {"text": text}
    sigbase = {}
    if prog.get("flags"):
        sigbase["flag"] = "+".join(sorted(prog["flags"]))

    def construct_of(line_no):
        i = line_no - 1
        # a label-only line is parsed together with the following statement (newline = ignored whitespace)
        while 0 <= i < len(prog["lines"]) - 1 and prog["lines"][i].get("stmt") is None:
            i += 1
        if 0 <= i < len(prog["lines"]):
            st = prog["lines"][i].get("stmt")
            k = "label_only" if st is None else st["kind"]
            if st is not None and st["kind"] == "instr":
                k = "instr:" + st["ikind"]
                if i in prog.get("near20", []):
                    k = "instr:near_literal20"
            return k + ("@" + sect[i] if sect[i] in ("bss",) else "")
        return "?"
    asm = Assembler()
    _wrapped["sizes"].clear()
    _wrapped["encodes"].clear()
    fp_cache0 = khash(deep_fp({k: [(t["opcode"], t["class"].__name__) for t in v] for k, v in REVERSE_OPCODES_CACHE.items()}))
    fp_op0 = opcodes_fingerprint()
    try:
        bf = asm.assemble(text)
    except AssemblerError as e:
        if res:
            res.monitor("page_rule" if xpage else "layout_walk")
        if xpage and "not on current page" in str(e):
            if res:
                res.count("cross_page_near_jump_rejected")
            return []
        msg = str(e)
        why = "other"
        for key, tag in (("Invalid section", "section"), ("Undefined section", "undefined_section_pass2"),
                         ("overlap", "overlap"), ("Undefined symbol", "undefined_symbol"),
                         ("not on current page", "page")):
            if key.lower() in msg.lower():
                why = tag
        import re as _re
        m = _re.search(r"on line (\d+)", msg)
        cons = construct_of(int(m.group(1))) if m else "?"
        return [{"sig": dict(sigbase, clause="well_formed_program_rejected", why=why, construct=cons), "case": case,
                 "detail": msg[:300]}]
    except BaseException as e:  # noqa: BLE001
        return [{"sig": dict(sigbase, clause="assembler_crashes"), "case": case,
                 "detail": f"{type(e).__name__}:{str(e)[:200]}"}]
    viol = []

    def v(clause, detail, **extra):
        viol.append({"sig": dict(sigbase, clause=clause, **extra), "case": case, "detail": detail})

    if xpage:
        if res:
            res.monitor("page_rule")
        v("cross_page_near_jump_accepted", {"lines": xpage})
    # (1) pass-1 size vs pass-2 emitted length, per source line
    if res:
        res.monitor("pass1_vs_pass2")
    s1 = dict(_wrapped["sizes"])
    e2 = {ln: (a, n) for ln, a, n in _wrapped["encodes"]}
    for ln, n1 in s1.items():
        if ln in e2 and e2[ln][1] != n1:
            v("pass1_size_differs_from_pass2_bytes", {"line": ln, "pass1": n1, "pass2": e2[ln][1]})
            break
    # (2) layout walk: statement addresses, labels, image
    if res:
        res.monitor("layout_walk")
    src_lines = text.split("\n")
    bss_has_data = "data" in {s for s in sect}
    for i, (a, standalone, is_bss) in enumerate(expect):
        ln = i + 1
        if ln in e2 and not is_bss:
            if e2[ln][0] != a:
                v("statement_address", {"line": ln, "src": src_lines[i], "expected": a, "pass2": e2[ln][0]})
                break
    for l, a in label_addr.items():
        got = asm.symbols.get(l.upper())
        in_bss = any(("label" in line and line["label"] == l and s == "bss") for line, s in zip(prog["lines"], sect))
        if in_bss:
            continue   # bss label values: judged by monitor (1b) below
        if got != a:
            v("label_value", {"label": l, "expected": a, "symbols": got})
            break
    # (1b) labels of statements that emit: symbol value == pass-2 address of that statement (any section)
    for i, line in enumerate(prog["lines"]):
        ln = i + 1
        if "label" in line and ln in e2:
            sym = asm.symbols.get(line["label"].upper())
            if sym != e2[ln][0]:
                v("label_differs_from_statement_address", {"label": line["label"], "symbol": sym, "pass2": e2[ln][0],
                                                            "section": sect[i]}, section=sect[i])
                break
    img = image_of(bf)
    # (3) per-statement metamorphic oracle + image
    exp_img = {}
    if res:
        res.monitor("single_instruction_metamorphic")
    for i, (a, standalone, is_bss) in enumerate(expect):
        if standalone is None or is_bss:
            continue
        try:
            alone = bytes(Assembler().assemble(f".ORG 0x{a:05X}\n {standalone}\n").as_binary())
        except BaseException as e:  # noqa: BLE001
            if standalone.startswith("defs 0"):
                alone = b""
            else:
                v("standalone_statement_fails", {"src": standalone, "err": str(e)[:200]}, construct=construct_of(i + 1))
                continue
        for j, b in enumerate(alone):
            exp_img[a + j] = b
    if exp_img != img and not viol:
        diff = [(hex(a), exp_img.get(a), img.get(a)) for a in sorted(set(exp_img) | set(img)) if exp_img.get(a) != img.get(a)]
        v("image_differs_from_standalone_statements", {"first_diffs": diff[:6], "count": len(diff)})
    if any(is_bss and standalone for a, standalone, is_bss in expect):
        bss_addrs = [a for a, st_, is_bss in expect if is_bss]
        # .bss must not emit bytes
        # (addresses of bss statements are unknown to the walk when data precedes; only the 'emits nothing' clause)
        pass
    # (4) determinism / statelessness
    if res:
        res.monitor("determinism")
    try:
        again = image_of(asm.assemble(text))
        sym_again = dict(asm.symbols)
        other = Assembler()
        for h in (pre_history or []):
            try:
                other.assemble(h)
            except BaseException:  # noqa: BLE001
                pass
        third = image_of(other.assemble(text))
        if again != img or third != img:
            v("assembly_not_deterministic", {"same_object_equal": again == img, "after_history_equal": third == img})
        if other.symbols != sym_again:
            v("symbols_depend_on_history", {"a": len(sym_again), "b": len(other.symbols)})
    except BaseException as e:  # noqa: BLE001
        v("second_assembly_fails", f"{type(e).__name__}:{str(e)[:200]}")
    fp_cache1 = khash(deep_fp({k: [(t["opcode"], t["class"].__name__) for t in vv] for k, vv in REVERSE_OPCODES_CACHE.items()}))
    if fp_cache1 != fp_cache0 or opcodes_fingerprint() != fp_op0:
        v("assembler_mutates_shared_tables", {})
    if res and not viol and refs:
        res.nontrivial(text)
    return viol


ALPHABET = ["instr", "defb", "defb_str", "defw", "defl", "defs", "defm", "org", "section", "empty"]


def plan(tier, seed):
    specs = []
    idx = 0
    parts = 16 if tier == "quick" else 64
    for i in range(parts):
        specs.append({"kind": "random", "part": i, "parts": parts, "seed": seed, "tier": tier, "idx": idx}); idx += 1
    specs.append({"kind": "pairs", "seed": seed, "tier": tier, "idx": idx}); idx += 1
    return specs


def run_shard(spec) -> Result:
    from ..pyside import FlatMem  # noqa: F401
    res = Result()
    r = rng(spec["seed"], "c10", spec["idx"])
    res.count("stable_pool_forms", len(stable_pool()))
    history = []

    def one(prog):
        res.evaluations += 1
        viol = check_program(res, prog, r, pre_history=history[-3:])
        for x in viol:
            res.violation(x["sig"], x["case"], x["detail"])
        for c in prog["classes"]:
            res.table("programs_by_construct", c)

    if spec["kind"] == "pairs":
        for a in ALPHABET:
            for b in ALPHABET:
                for rep in range(3):
                    one(gen_program(r, two=(a, b)))
    else:
        n = (480 if spec["tier"] == "quick" else 8000) // spec["parts"]
        for i in range(n):
            prog = gen_program(r)
            one(prog)
            if i % 5 == 0:
                history.append("NOP\nBOGUS 1,2\n" if i % 10 == 0 else "L1: JP L1\n defb 1,2,3\n")
            elif i % 5 in (1, 3):
                # a call that is REJECTED late (undefined symbol / far-away near target found in pass two) after every line
                # of a realistic program went through pass one: whatever it cached per line must not reach the next call
                text, *_ = render(prog, rng(spec["seed"], "c10hist", i))
                tail = " JP NO_SUCH_LABEL_ANYWHERE\n" if i % 5 == 1 else " .ORG 0x7FFF0\nFARAWAY_: NOP\n .ORG 0x00010\n JP FARAWAY_\n"
                history.append(tail + text if i % 2 else text + "\n" + tail)
            if len(res.samples) < 2:
                text, *_ = render(prog, rng(0, "sample"))
                res.sample({"program": text.split("\n")[:12]})
    return res


def replay(case):
    return []
