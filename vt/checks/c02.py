"""C02 - encode is the exact inverse of decode on every accepted instruction."""
from __future__ import annotations

from ..core import Result, rng
from .. import enc

PROPERTY = "C02"
LEVEL = "exploration"
NEEDS = ()
EXHAUSTIVE = {"quick": False, "thorough": True}
REQUIRED_MONITORS = ["encode_roundtrip", "redecode_equivalence", "text_guard"]
RULE = ("same structural heads as C01 restricted to encodings the info callback accepts, plus don't-care sweeps: "
        "all 256 selector bytes for Reg3/RegPair opcodes and all 16 values of the high nibble of every payload byte "
        "(covers the ignored high nibble of 20-bit immediates/addresses). Oracle: encode(decode(b)) == b[:len]; "
        "decode(encode(decode(b))) has the same tokens/length/IL; get_instruction_text never returns None for an "
        "accepted encoding. distinct_nontrivial = distinct accepted (prefix,opcode,second byte,payload-class).")
ASSUMPTIONS = ["binja_test_mocks stands in for Binary Ninja", "payload bytes sampled + nibble sweeps"]

SELECTOR_OPS = [0x11, 0x6C, 0x7C, 0xD6, 0xD7, 0x44, 0x45, 0x46, 0x4C, 0x4D, 0x4E, 0xED, 0xFD,
                # the mode byte of the memory-indirect forms [(n)] / [(n)+-m] (00 / 80 / C0 and everything else): whatever
                # the decoder accepts must be reproduced bit for bit
                0x98, 0x9C, 0xB8, 0xBE, 0xF0, 0xF3, 0xF8, 0xFB,
                # register-indirect selectors with mode nibble (all 256 second bytes) and the offset forms
                0x90, 0xB4, 0xE0, 0xEB, 0x56, 0x5E]
_arch = None


def _setup():
    global _arch
    if _arch is None:
        from ..pyside import FlatMem  # noqa: F401
        from sc62015.arch import SC62015
        _arch = SC62015()
    return _arch


def dontcare_classes(instr) -> list[str]:
    out = []
    if getattr(instr, "_pre", None) is not None:
        out.append("pre")
    stack = list(instr.operands_coding())
    while stack:
        op = stack.pop()
        eh = getattr(op, "extra_hi", None)
        if isinstance(eh, int) and (eh >> 4):
            out.append("imm20_high_nibble")
        rr = getattr(op, "reg_raw", None)
        if isinstance(rr, int):
            cls = type(op).__name__
            if cls == "RegPair":
                out.append("regpair_raw")
            else:
                if rr & 0x08:
                    out.append("reg3_bit3")
                if rr & 0xF0:
                    out.append("reg3_high_nibble")
        for attr in ("reg", "imem", "imem1", "imem2", "mode_imm", "offset"):
            sub = getattr(op, attr, None)
            if sub is not None and hasattr(sub, "__dict__") and not isinstance(sub, str):
                stack.append(sub)
    return out


def check_case(res, buf: bytes, addr: int):
    from ..pyside import il_shape, tokens_key, MockLowLevelILFunction
    from sc62015.pysc62015.instr import decode, encode, OPCODES
    arch = _setup()
    viol = []
    case = {"buf": buf.hex(), "addr": addr}

    def v(sig, detail=None):
        viol.append({"sig": sig, "case": case, "detail": detail})

    try:
        info = arch.get_instruction_info(buf, addr)
    except BaseException as e:  # noqa: BLE001
        v({"clause": "info_raises", "exc": type(e).__name__}, str(e)[:200])
        return viol, None
    if info is None:
        return viol, None
    instr = decode(buf, addr, OPCODES)
    L = instr.length()
    try:
        enc1 = bytes(encode(instr, addr))
    except BaseException as e:  # noqa: BLE001
        v({"clause": "encode_raises", "exc": type(e).__name__}, str(e)[:200])
        return viol, instr
    if res:
        res.monitor("encode_roundtrip")
    if enc1 != buf[:L]:
        v({"clause": "encode_not_inverse"}, {"consumed": buf[:L].hex(), "encoded": enc1.hex()})
    # decode again from the encoded bytes
    try:
        instr2 = decode(enc1, addr, OPCODES)
        il1 = MockLowLevelILFunction()
        instr.lift(il1, addr)
        if instr2 is None:
            v({"clause": "reencoded_not_decodable"}, {"encoded": enc1.hex()})
        else:
            il2 = MockLowLevelILFunction()
            instr2.lift(il2, addr)
            if res:
                res.monitor("redecode_equivalence")
            if instr2.length() != L:
                v({"clause": "redecode_length"}, {"len": L, "len2": instr2.length()})
            if tokens_key(instr2.render()) != tokens_key(instr.render()):
                v({"clause": "redecode_text"}, {"t1": repr(instr.render())[:200], "t2": repr(instr2.render())[:200]})
            if il_shape(il1) != il_shape(il2):
                v({"clause": "redecode_il"}, None)
    except BaseException as e:  # noqa: BLE001
        v({"clause": "redecode_raises", "exc": type(e).__name__}, str(e)[:200])
    # guard: text callback must not demote an accepted instruction
    try:
        t = arch.get_instruction_text(buf, addr)
        if res:
            res.monitor("text_guard")
        if t is None:
            v({"clause": "silently_demoted_to_data"}, {"len": L})
        elif t[1] != L:
            v({"clause": "text_length"}, {"len": L, "text_len": t[1]})
    except BaseException as e:  # noqa: BLE001
        v({"clause": "text_raises", "exc": type(e).__name__}, str(e)[:200])
    return viol, instr


def plan(tier, seed):
    specs = enc.plan_heads(tier)
    for i, s in enumerate(specs):
        s.update(seed=seed, tier=tier, idx=i, kind="heads")
    # selector sweeps (complete over the selector byte, all prefixes) - both tiers
    for i, op in enumerate(SELECTOR_OPS):
        specs.append({"kind": "selector", "op": op, "seed": seed, "tier": tier, "idx": 1000 + i})
    return specs


def run_shard(spec) -> Result:
    res = Result()
    _setup()
    seed = spec["seed"]
    addrs = [0, 0xFFFF, 0x10000, 0x2FFF0, 0xFFFF0, 0x54321]

    def handle(buf, addr, key):
        viol, instr = check_case(res, buf, addr)
        res.evaluations += 1
        if instr is not None:
            classes = dontcare_classes(instr)
            for c in classes:
                res.count("dontcare:" + c)
            res.nontrivial(key)
            if len(res.samples) < 3:
                from ..pyside import tokens_text
                res.sample({"bytes": buf[:instr.length()].hex(), "text": tokens_text(instr.render()),
                            "dontcare": classes})
        else:
            res.count("rejected")
        for x in viol:
            x["sig"]["op"] = key[1]
            res.violation(x["sig"], x["case"], x["detail"])
        return instr

    if spec["kind"] == "selector":
        op = spec["op"]
        for pfx in enc.PREFIXES:
            for b2 in range(256):
                tail = enc.payload(seed, pfx, op, b2)
                handle(enc.head_bytes(pfx, op, b2, tail), addrs[b2 % len(addrs)],
                       (pfx, f"{op:02X}", b2, "sel"))
        return res
    for (pfx, op, b2) in enc.shard_heads(spec):
        tail = enc.payload(seed, pfx, op, b2)
        buf = enc.head_bytes(pfx, op, b2, tail)
        addr = addrs[(op ^ b2) % len(addrs)]
        instr = handle(buf, addr, (pfx, f"{op:02X}", b2, "base"))
        if instr is None:
            continue
        base_len = instr.length() - (1 if pfx is not None else 0)
        # extreme payloads: every payload byte 00 / FF / 80 / 7F (immediates and displacements at the ends of their range)
        if base_len > 2 and b2 in (0x00, 0x7F, 0x80, 0xFF):
            for fill in (0x00, 0xFF, 0x80, 0x7F):
                handle(enc.head_bytes(pfx, op, b2, bytes([fill]) * len(tail)), addr, (pfx, f"{op:02X}", b2, "fill", fill))
        # nibble sweep over payload (only where the instruction has payload beyond the second byte)
        if base_len > 2 and (spec["tier"] == "thorough" and b2 % 16 == 0 or spec["tier"] == "quick" and b2 in (0x00, 0x24)):
            for hn in range(16):
                t2 = bytes((x & 0x0F) | (hn << 4) for x in tail)
                handle(enc.head_bytes(pfx, op, b2, t2), addr, (pfx, f"{op:02X}", b2, "hn", hn))
    return res


def replay(case):
    viol, _ = check_case(None, bytes.fromhex(case["buf"]), case["addr"])
    return viol
