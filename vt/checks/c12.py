"""C12 - interrupts: taken only when enabled and pending, undone by RETI, not lost, HALT/OFF."""
from __future__ import annotations

import itertools

from ..core import Result, rng
from .. import machine
from ..machine import le3, ROM_BASE, VECTOR, ENTRY

PROPERTY = "C12"
LEVEL = "exploration"
NEEDS = ("rust",)
EXHAUSTIVE = {"quick": False, "thorough": False}
REQUIRED_MONITORS = ["py_trace_checker", "rs_trace_checker", "entries_observed", "retis_observed", "halt_observed"]
RULE = ("a ROM template (reset code sets S/U, strobes all key columns, writes IMR; main loop in {busy, HALT, OFF, WAIT}; "
        "handler = NOP + body in {empty, touch RAM, re-enable bit 7, clear ISR bits, user-stack use} + RETI) runs on the real "
        "PCE500Emulator and CoreRuntime with timers of period 1-9 cycles; between ANY two step boundaries the driver may "
        "inject one event from {press/release key, ON key down/up, firmware-style write of IMR in {00,01,04,0F,80,81,84,8F,FF}, "
        "ISR := 0, ISR |= bit}. All event sequences up to depth 2 at all placements in a window (thorough: plus depth 3 over "
        "a 14-event alphabet at every second placement) are enumerated for 3 base programs; plus seeded runs of 50-400 steps. One observation record per boundary (PC, S, F, "
        "IMR, ISR, 11 stack bytes, delivery flags/counters, timer targets, power) feeds an online checker of the "
        "statement's clauses. distinct_nontrivial = distinct runs in which at least one interrupt entry was observed.")
ASSUMPTIONS = ["entry is recognised from architectural effects; model bookkeeping is only cross-checked",
               "bounded progress K = 2 step boundaries; S is always initialised by the template",
               "every handler starts with NOP so both delivery conventions expose the intact frame"]

HANDLER = ROM_BASE + 0x100
MAINS = {
    "busy": bytes([0x00, 0x00, 0x00, 0x13, 0x05]),
    "halt": bytes([0xDE, 0x00, 0x13, 0x04]),
    "off": bytes([0xDF, 0x00, 0x13, 0x04]),
    "wait": bytes([0x0B, 0x03, 0x00, 0xEF, 0x13, 0x06]),
    # the firmware idiom of a critical section: master enable cleared and set again by memory-addressed writes, so that
    # requests keep arriving exactly at the boundaries where bit 7 changes
    "toggle": bytes([0x32, 0x71, 0xFB, 0x7F, 0x00, 0x32, 0x79, 0xFB, 0x80, 0x00, 0x13, 0x0C]),
    # the same critical section written with 16-bit stores to (FA): IMR is the SECOND byte of the store
    "toggle_wide": bytes([0x32, 0xCD, 0xFA, 0x00, 0x0F, 0x00, 0x32, 0xCD, 0xFA, 0x00, 0x8F, 0x00, 0x13, 0x0E]),
    # software interrupts from the main loop: the same handler is entered by IR and by hardware delivery
    "swi": bytes([0x00, 0xFE, 0x00, 0x00, 0x13, 0x06]),
}
BODIES = {
    "empty": b"",
    "touch": bytes([0x32, 0xA0, 0x50]),
    "reenable": bytes([0x32, 0x79, 0xFB, 0x80]),
    "clear_isr": bytes([0x32, 0x71, 0xFC, 0xF0]),
    "ustack": bytes([0x2A, 0x3A]),
    "clear_then_reenable": bytes([0x32, 0x71, 0xFC, 0xF0, 0x32, 0x79, 0xFB, 0x80]),
    # the handler acknowledges everything with a plain store of 0 and then software raises ANOTHER request
    "zero_then_raise": bytes([0x32, 0xCC, 0xFC, 0x00, 0x32, 0x79, 0xFC, 0x02]),
    "zero_then_raise_key": bytes([0x32, 0xCC, 0xFC, 0x00, 0x32, 0x79, 0xFC, 0x08]),
    # the FIRST time the handler runs it executes RESET (a counter in internal RAM decides); later runs return normally
    "reset_once": bytes([0x32, 0x80, 0x50, 0x6C, 0x00, 0x32, 0xA0, 0x50, 0x60, 0x01, 0x1A, 0x01, 0xFF]),
    "zero": bytes([0x32, 0xCC, 0xFC, 0x00]),       # blanket acknowledge: MV (ISR),0
    # the handler acknowledges everything and then HALTs inside the handler (master enable still clear): a halted CPU
    # "resumes exactly when a status bit becomes pending" - also here (host events: keys, ON key, status bits raised)
    "ack_then_halt": bytes([0x32, 0xCC, 0xFC, 0x00, 0xDE]),
}
IMR_VALUES = [0x00, 0x01, 0x04, 0x0F, 0x80, 0x81, 0x84, 0x8F, 0xFF]
KEYS = ["KEY_Q", "KEY_A", "KEY_F1"]


def scenario(main, body, imr0, timer, kb_irq=True, reti=b"\x01", s0=0xB9000):
    reset = bytes([0x0F]) + le3(s0) + bytes([0x0E]) + le3(0xBA000) + bytes([0x32, 0xCC, 0xF0, 0xFF, 0x32, 0xCC, 0xFB, imr0])
    main_addr = ROM_BASE + len(reset)
    code = reset + MAINS[main]
    handler = bytes([0x00]) + BODIES[body] + bytes(reti)     # reti: RETI, possibly behind a PRE byte
    pieces = [[ROM_BASE, code.hex()], [HANDLER, handler.hex()], [VECTOR, le3(HANDLER).hex()], [ENTRY, le3(ROM_BASE).hex()]]
    return {"code": pieces, "regs": {"PC": ROM_BASE, "S": s0, "U": 0xBA000}, "imem": {0xFB: 0, 0xFC: 0},
            "timer": dict(timer, kb_irq=kb_irq), "main": main, "body": body, "imr0": imr0, "main_addr": main_addr,
            "reti": bytes(reti).hex()}


_succ_cache = {}


def succ_fn_for(scen):
    """Static successors of each instruction of the template, from the real decoder's branch metadata."""
    key = (scen["main"], scen["body"], scen["imr0"], scen.get("reti"))
    if key in _succ_cache:
        return _succ_cache[key]
    from ..pyside import FlatMem  # noqa: F401
    from sc62015.arch import SC62015
    arch = SC62015()
    mem = {}
    for a, h in scen["code"]:
        for i, b in enumerate(bytes.fromhex(h)):
            mem[a + i] = b
    table = {}
    for start in list(mem):
        buf = bytes(mem.get(start + i, 0) for i in range(8))
        try:
            info = arch.get_instruction_info(buf, start)
        except Exception:  # noqa: BLE001
            info = None
        if info is None:
            continue
        s = {start + info.length}
        for br in info.branches:
            if br.target is not None:
                s.add(int(br.target))
        table[start] = s

    def fn(pc):
        return table.get(pc)
    _succ_cache[key] = fn
    return fn


EVENTS = ([("press", k) for k in KEYS[:2]] + [("release", KEYS[0])] + [("on", 1), ("on", 0)] +
          [("wimem", 0xFB, v) for v in IMR_VALUES] + [("wimem", 0xFC, 0), ("imem_or", 0xFC, 0x01), ("imem_or", 0xFC, 0x02),
                                                      ("imem_or", 0xFC, 0x04), ("imem_or", 0xFC, 0x08),
                                                      # a status bit of a source the models do not generate themselves
                                                      # (serial / external): still "a status bit becomes pending"
                                                      ("imem_or", 0xFC, 0x10), ("imem_or", 0xFC, 0x40)])


def build_script(nsteps, placed):
    """placed: dict step_index -> event (injected before that step). Each event is followed by an ("obs",)."""
    script = [("obs",)]
    for i in range(nsteps):
        if i in placed:
            script.append(placed[i])
            script.append(("obs",))
        script.append(("step",))
    return script


def check_run(res, model, scen, script, observations, err):
    from ..irqmon import IrqMonitor
    mon = IrqMonitor(model, HANDLER, succ_fn_for(scen), kb_irq_enabled=scen["timer"].get("kb_irq", True))
    it = iter(observations)
    pending_evt = None
    n = 0
    for op in script:
        if op[0] == "step":
            rec = next(it, None)
            if rec is None:
                break
            mon.feed(rec, "step")
            n += 1
        elif op[0] == "obs":
            rec = next(it, None)
            if rec is None:
                break
            mon.feed(rec, "obs", injected=pending_evt)
            pending_evt = None
        else:
            pending_evt = op
        if rec_has_error(rec := mon.prev):
            mon._v("step_raises", error=rec.get("step_error") or rec.get("panic"))
            break
    res.monitor(f"{model}_trace_checker", n)
    res.monitor("entries_observed", mon.stats["entries"])
    res.monitor("retis_observed", mon.stats["retis"])
    res.monitor("halt_observed", mon.stats["halt_steps"])
    res.monitor("masked_key_request_steps", mon.stats.get("masked_key_steps", 0))
    for k, v in mon.stats.items():
        res.count(f"{model}_{k}", v)
    case = {"model": model, "scenario": {k: scen[k] for k in ("main", "body", "imr0", "timer")},
            "script": [list(o) for o in script if o[0] not in ("obs",)][:200]}
    seen = set()
    for clause, detail in mon.viol:
        # one report per distinct SIGNATURE per run (not per clause: a recorded mechanism early in a run must not hide a
        # different mechanism of the same clause later in the same run)
        key = (clause, detail.get("flag_dropped_at"), bool(detail.get("on_press_did_not_arm")), detail.get("power"),
               detail.get("in_handler"), tuple(detail.get("fields", ())))
        if key in seen:
            continue
        seen.add(key)
        sig = {"clause": clause, "model": model, "main": scen["main"]}
        if "fields" in detail:
            sig["fields"] = detail["fields"]
        if clause == "status_bit_dropped_while_sleeping":
            sig["power"] = detail.get("power")
            sig["in_handler"] = detail.get("in_handler")
        if clause == "pending_unmasked_request_not_delivered" and model == "py":
            # where the model's private pending flag was last dropped (distinguishes mechanisms of the same clause)
            sig["flag_dropped_at"] = detail.get("flag_dropped_at")
            sig["on_press_did_not_arm"] = bool(detail.get("on_press_did_not_arm"))
        res.violation(sig, case, detail)
    return mon.stats["entries"] > 0


def rec_has_error(rec):
    return bool(rec) and ("step_error" in rec or "panic" in rec)


def key_codes():
    from pce500.keyboard_matrix import KEY_LOCATIONS
    return {k: (loc.column << 3) | loc.row for k, loc in KEY_LOCATIONS.items()}


def run_jobs(res, jobs):
    """jobs: [(scen, script)] run on both models."""
    kc = key_codes()
    routs = machine.run_rust(jobs, kc)
    for (scen, script), (robs, rerr, _) in zip(jobs, routs):
        res.evaluations += 2
        if scen.get("rust_only"):
            if check_run(res, "rs", scen, script, robs, rerr):
                res.nontrivial("rs", scen["main"], scen["body"], scen["imr0"], repr(scen["timer"]), scen["regs"]["S"])
            continue
        py = machine.PyMachine(scen)
        pobs = py.run(script)
        ok_p = check_run(res, "py", scen, script, pobs, None)
        for ent in py.keyi_log:
            res.monitor("py_keyi_hook")
            if not ent["kb_irq"] or (ent["fifo_len"] == 0 and not ent["latched"]):
                res.violation({"clause": "keyi_raised_without_pending_or_enable", "model": "py", "main": scen["main"]},
                              {"scenario": {k: scen[k] for k in ("main", "body", "imr0", "timer")}}, ent)
                break
        ok_r = check_run(res, "rs", scen, script, robs, rerr)
        if ok_p:
            res.nontrivial("py", scen["main"], scen["body"], scen["imr0"], repr(scen["timer"]), repr(script[:60]))
        if ok_r:
            res.nontrivial("rs", scen["main"], scen["body"], scen["imr0"], repr(scen["timer"]), repr(script[:60]))
    if jobs and len(res.samples) < 2:
        s, sc = jobs[0]
        res.sample({"scenario": {k: s[k] for k in ("main", "body", "imr0", "timer")}, "script": [list(o) for o in sc[:14]]})


def run_key_during_handler(res, tier):
    """Directed: a timer handler that acknowledges with a blanket `MV (ISR),0` is running again and again while a key goes
    down and stays down. The key request (raised while the master enable is clear) must not be lost: at least one KEY
    interrupt has to be taken afterwards (both models keep key events until KIL is read)."""
    jobs = []
    for imr0 in (0x85, 0x8F):
        for mti in (3, 5):
            for t in range(8, 30, 1 if tier == "thorough" else 3):
                scen = scenario("busy", "zero", imr0, {"enabled": True, "mti": mti, "sti": 0}, kb_irq=True)
                jobs.append((scen, build_script(150, {t: ("press", "KEY_Q")}), t))
    # the ON key goes down at every step of a window that covers handler and main loop (ONK unmasked in the main loop)
    onjobs = []
    for body in ("ustack", "touch"):
        for mti in (9, 5):
            for t in range(8, 24, 1 if tier == "thorough" else 2):
                scen = scenario("busy", body, 0x8F, {"enabled": True, "mti": mti, "sti": 0})
                onjobs.append((scen, build_script(40, {t: ("on", 1), t + 9: ("on", 0)})))
    run_jobs(res, onjobs)
    kc = key_codes()
    routs = machine.run_rust([(s_, sc) for s_, sc, _ in jobs], kc)
    for (scen, script, t), (robs, _e, _r) in zip(jobs, routs):
        pobs = machine.PyMachine(scen).run(script)
        check_run(res, "py", scen, script, pobs, None)
        check_run(res, "rs", scen, script, robs, _e)
        for model, obs in (("py", pobs), ("rs", robs)):
            res.evaluations += 1
            res.monitor("key_request_during_handler")
            if not obs:
                continue
            last = obs[-1]
            if last["irq_mti"] >= 3 and last["irq_key"] == 0:
                res.violation({"clause": "key_request_raised_during_handler_is_lost", "model": model},
                              {"model": model, "imr0": scen["imr0"], "mti": scen["timer"]["mti"], "press_at": t},
                              {"irq_key": last["irq_key"], "irq_mti": last["irq_mti"], "fifo": last["fifo"], "isr": last["isr"]})
            elif last["irq_key"]:
                res.nontrivial("keyhandler", model, scen["imr0"], scen["timer"]["mti"], t)


def plan(tier, seed):
    specs = []
    idx = 0
    specs.append({"kind": "keyhandler", "seed": seed, "tier": tier, "idx": 9000})
    nen = 16 if tier == "quick" else 48
    for i in range(nen):
        specs.append({"kind": "enum", "part": i, "parts": nen, "seed": seed, "tier": tier, "idx": idx}); idx += 1
    nph = 4 if tier == "quick" else 16
    for i in range(nph):
        specs.append({"kind": "phase", "part": i, "parts": nph, "seed": seed, "tier": tier, "idx": 9100 + i})
    specs.append({"kind": "stackedge", "seed": seed, "tier": tier, "idx": 9200})
    nr = 16 if tier == "quick" else 48
    for i in range(nr):
        specs.append({"kind": "random", "part": i, "parts": nr, "seed": seed, "tier": tier, "idx": idx}); idx += 1
    for i in range(1 if tier == "quick" else 6):
        specs.append({"kind": "valgrind", "part": i, "seed": seed, "tier": tier, "idx": idx}); idx += 1
    return specs


def run_shard(spec) -> Result:
    res = Result()
    r = rng(spec["seed"], "c12", spec["idx"])
    tier = spec["tier"]
    jobs = []
    if spec["kind"] == "enum":
        depth = 2 if tier == "quick" else 3
        window = 10
        bases = [("busy", "empty", 0x87, {"enabled": True, "mti": 3, "sti": 7}),
                 ("halt", "clear_isr", 0x8F, {"enabled": True, "mti": 4, "sti": 0}),
                 ("busy", "reenable", 0x00, {"enabled": False, "mti": 0, "sti": 0})]
        k = 0
        evs = EVENTS if tier == "thorough" else EVENTS[:2] + EVENTS[3:5] + [("wimem", 0xFB, 0x8F), ("wimem", 0xFB, 0x00),
                                                                             ("wimem", 0xFC, 0), ("imem_or", 0xFC, 0x01),
                                                                             ("imem_or", 0xFC, 0x04), ("imem_or", 0xFC, 0x10)]
        places = list(range(6, 6 + window, 2 if tier == "quick" else 1))
        for base in bases:
            for d in range(1, depth + 1):
                # depth 3 (thorough) is enumerated over a 14-event alphabet and every second placement; depths 1-2 over
                # the full alphabet and every placement
                evs_d = evs if d < 3 else (evs[:5] + evs[5:14:2] + evs[14:])[:14]
                places_d = places if d < 3 else places[::2]
                for combo in itertools.product(range(len(evs_d)), repeat=d):
                    for pl in itertools.combinations(places_d, d):
                        k += 1
                        if k % spec["parts"] != spec["part"]:
                            continue
                        scen = scenario(base[0], base[1], base[2], base[3])
                        placed = {p: evs_d[c] for p, c in zip(pl, combo)}
                        jobs.append((scen, build_script(6 + window + 8, placed)))
        res.count("enumerated_runs", len(jobs))
    elif spec["kind"] == "keyhandler":
        run_key_during_handler(res, tier)
        return res
    elif spec["kind"] == "phase":
        # no external events at all: every timer period against every main loop, so that an expiry lands on every
        # instruction of the loop (in particular on the HALT/OFF/WAIT instruction's own cycle) with the source enabled
        k = 0
        for main in MAINS:
            for body in (("empty", "clear_isr", "zero", "reenable") if tier == "thorough" else ("empty", "zero")):
                for imr0 in ((0x81, 0x83, 0x8F, 0x82, 0x03) if tier == "thorough" else (0x81, 0x8F)):
                    for mti in range(1, 14 if tier == "thorough" else 10):
                        for sti in ((0, 3, 7, 11) if tier == "thorough" else (0, 7)):
                            k += 1
                            if k % spec["parts"] != spec["part"]:
                                continue
                            scen = scenario(main, body, imr0, {"enabled": True, "mti": mti, "sti": sti})
                            if k % 3 == 0:
                                scen["fast_mode"] = True
                            jobs.append((scen, build_script(70, {})))
        res.count("phase_sweep_runs", len(jobs))
    elif spec["kind"] == "stackedge":
        # the interrupt frame (and, with a handler that re-enables interrupts, the nested frames 5, 10, ... bytes below it)
        # placed on every alignment across both edges of a RAM overlay inside main RAM (both models; Python has plain
        # RAM there) and of the memory card (Rust only: Python has nothing mapped below 0x40000)
        for body in ("empty", "reenable", "touch"):
            for main in ("busy", "halt"):
                for d in range(-3, 14):
                    for base, extra in ((0xB8F80, {"overlays": [[0xB8F80, 0x40]]}), (0xB8FC0, {"overlays": [[0xB8F80, 0x40]]}),
                                        (0x40000, {"card": 8192, "rust_only": True}),
                                        (0x42000, {"card": 8192, "rust_only": True})):
                        scen = scenario(main, body, 0x8F, {"enabled": True, "mti": 3, "sti": 0}, s0=base + d)
                        scen.update(extra)
                        jobs.append((scen, build_script(40, {})))
        res.count("stack_edge_runs", len(jobs))
    elif spec["kind"] == "valgrind":
        # the raw-pointer bus of CoreRuntime::step and the raw TimerContext pointer of the IMR/ISR hook under memcheck
        vj = []
        for _ in range(12 if tier == "quick" else 80):
            scen = scenario(r.choice(list(MAINS)), r.choice(list(BODIES)), r.choice(IMR_VALUES + [0x87, 0x8F]),
                            {"enabled": True, "mti": r.choice((1, 2, 3, 5)), "sti": r.choice((0, 2, 3))}, kb_irq=r.random() < 0.85)
            nsteps = r.randrange(30, 90)
            vj.append((scen, build_script(nsteps, {r.randrange(6, nsteps): r.choice(EVENTS) for _e in range(r.randrange(0, 6))})))
        kc = key_codes()
        outs, rep = machine.run_rust(vj, kc, valgrind=True)
        if not rep.get("available"):
            res.count("valgrind_not_available")
        else:
            res.evaluations += 1
            res.monitor("valgrind_memcheck", len(vj))
            if rep["errors"] or rep.get("rc") != 0 or outs is None:
                res.violation({"clause": "memcheck_error_in_step_or_irq_hook"}, {"jobs": len(vj)}, rep["log"][-800:])
            else:
                plain = machine.run_rust(vj, kc)
                if [o[0] for o in outs] != [o[0] for o in plain]:
                    res.violation({"clause": "result_differs_under_memcheck"}, {"jobs": len(vj)}, "")
        return res
    else:
        n = (1600 if tier == "quick" else 24000) // spec["parts"]
        for _ in range(n):
            main = r.choice(list(MAINS))
            body = r.choice(list(BODIES))
            imr0 = r.choice(IMR_VALUES + [0x87, 0x83, 0x8B])
            timer = {"enabled": r.random() < 0.85, "mti": r.choice((1, 2, 3, 4, 5, 7, 9)), "sti": r.choice((0, 2, 3, 5, 8, 9))}
            scen = scenario(main, body, imr0, timer, kb_irq=r.random() < 0.85,
                            reti=r.choice((b"\x01", b"\x01", b"\x01", b"\x32\x01", b"\x25\x01")))
            if r.random() < 0.3:
                scen["fast_mode"] = True       # Python only: PCE500Emulator.fast_mode (Rust has one path)
            nsteps = r.randrange(50, 160 if tier == "quick" else 400)
            placed = {}
            for _e in range(r.randrange(0, 10)):
                placed[r.randrange(6, nsteps)] = r.choice(EVENTS)
            jobs.append((scen, build_script(nsteps, placed)))
    for lo in range(0, len(jobs), 60):
        run_jobs(res, jobs[lo:lo + 60])
    return res


def replay(case):
    return []
