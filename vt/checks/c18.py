"""C18 - the virtual-time task scheduler wakes tasks exactly on time and in order; async CPU == sync CPU."""
from __future__ import annotations

import itertools

from ..core import Result, rng

PROPERTY = "C18"
LEVEL = "exploration"
NEEDS = ("rust",)
EXHAUSTIVE = {"quick": False, "thorough": False}
REQUIRED_MONITORS = ["wake_time_exact", "partition_invariance", "events_exactly_once_in_order", "budget_respected",
                     "cpu_async_vs_sync", "disturbed_runs"]
RULE = ("scripted cooperative tasks (start, then steps of `sleep d` with d in a palette containing 0, or a bare "
        "Pending without a wake request, each resumption optionally emitting one uniquely numbered event) are spawned on "
        "the REAL AsyncDriver and driven by run_for under several partitions of the run into budgets (one huge budget, "
        "constant 0/1/2/3/7 with the crate's own +1 escalation on zero progress, seeded budget sequences). Every "
        "resumption logs current_cycle(); every DriverRunResult and clock() is recorded. Complete enumeration: all single "
        "tasks of <= 3 steps over the full alphabet, all pairs of tasks of <= 2 steps (quick) and all triples (thorough) "
        "over the reduced alphabet {0,1,3,yield} x {emit, no emit}; plus seeded sets of 1-4 tasks with up to 6 steps, huge "
        "durations and non-zero start clocks. CPU equivalence: generated programs (C06 generator) and the interrupt/"
        "timer/keyboard ROM templates of C16, run for the same number of instructions by CoreRuntime::step(n), n x "
        "step(1) and AsyncRuntimeRunner::run_instructions split into several calls with slice sizes {1,2,3,10,10000}; "
        "full machine observation compared. distinct_nontrivial = distinct (task set, partition) runs in which at least "
        "two resumptions shared a cycle or an event was returned, plus distinct CPU programs that executed >= 5 "
        "instructions.")
ASSUMPTIONS = ["same-cycle order is compared across partitions only (the statement promises independence, not a particular order)",
               "a budget smaller than the distance to the next wake legitimately makes no progress; the driver loop follows "
               "AsyncRuntimeRunner's escalation (budget+1 after a MaxCycles result with zero cycles)",
               "one event per resumption, as the statement allows"]

BIG = (1 << 62)
FULL = [("sleep", 0), ("sleep", 1), ("sleep", 2), ("sleep", 3), ("sleep", 7), ("yield", 0)]
SMALL = [("sleep", 0), ("sleep", 1), ("sleep", 3), ("yield", 0)]
PARTITIONS = [[BIG], [0], [1], [2], [3], [7]]


def task_variants(alphabet, max_steps, start_emit_opts=(False, True)):
    out = []
    for se in start_emit_opts:
        for n in range(0, max_steps + 1):
            for kinds in itertools.product(alphabet, repeat=n):
                for emits in itertools.product((False, True), repeat=n):
                    out.append((se, tuple(zip(kinds, emits))))
    return out


def build_case(cid, variants, clock0=0, budgets=None):
    tasks = []
    for tid, (se, steps) in enumerate(variants):
        tasks.append({"start_emit": (tid * 16) if se else None,
                      "steps": [[kd[0], kd[1], (tid * 16 + i + 1) if em else None] + list(kd[2:3])
                                for i, (kd, em) in enumerate(steps)]})
    return {"id": cid, "clock0": clock0, "tasks": tasks, "budgets": budgets or [BIG], "max_calls": 200000}


def expected_cycles(case):
    """Per task: the cycle each resumption must observe (start, then one per step) - from the scripts alone."""
    out = []
    for t in case["tasks"]:
        c = case["clock0"]
        seq = [c]
        for st in t["steps"]:
            k, d = st[0], st[1]
            if k == "park":
                break        # sleep_cycles(u64::MAX - d): the task must never be seen again (nor anything after it)
            if k == "nap2":
                # `let later = sleep_cycles(d2); sleep_cycles(d).await; later.await;` - a sleep counts from the moment the
                # task starts waiting on it (its first poll), not from the moment the future object was made
                c = c + d + st[3]
            else:
                c = c + (1 if k == "yield" else d)
            seq.append(c)
        out.append(seq)
    return out


def judge(res: Result, case, outs, partitions):
    """outs[i] = harness output under partitions[i]."""
    exp = expected_cycles(case)
    ntasks = len(case["tasks"])
    slim = {"clock0": case["clock0"], "tasks": case["tasks"]}
    base_log = None
    base_events = None
    shared = False
    for part, o in zip(partitions, outs):
        disturb = 0
        if isinstance(part, dict):
            disturb, part = part["disturb"], part["budgets"]
        pc = dict(slim, budgets=part[:12])
        if disturb:
            pc["disturb"] = disturb      # other users of the thread (second driver / block_on) between the calls
            res.monitor("disturbed_runs")
        if o.get("panic"):
            res.violation({"clause": "driver_panics"}, pc, o["panic"][:200])
            return
        nparked = sum(1 for t in case["tasks"] if any(st[0] == "park" for st in t["steps"]))
        if o["done"] != ntasks - nparked:
            res.violation({"clause": "tasks_never_finish", "partition": "const" if len(part) == 1 else "seq"}, pc,
                          {"done": o["done"], "calls": o["calls"], "stalled": o.get("stalled")})
            return
        log = [tuple(x[:3]) for x in o["log"]]
        # ---- wake-time exactness and monotone virtual time ------------------------------------------------------
        res.monitor("wake_time_exact", len(log))
        prev_cycle = case["clock0"]
        seen = [0] * ntasks
        for (tid, step, cyc), raw in zip(log, o["log"]):
            if step + 1 >= len(exp[tid]):
                res.violation({"clause": "parked_task_resumed"}, pc, {"task": tid, "step": step, "cycle": cyc})
                return
            want = exp[tid][step + 1]
            if step + 1 != seen[tid]:
                res.violation({"clause": "task_resumed_out_of_script_order"}, pc, {"task": tid, "step": step})
                return
            seen[tid] += 1
            if cyc != want:
                k = case["tasks"][tid]["steps"][step][0] if step >= 0 else "start"
                d = case["tasks"][tid]["steps"][step][1] if step >= 0 else 0
                res.violation({"clause": "woken_at_wrong_cycle", "when": "late" if cyc > want else "early", "kind": k,
                               "zero_duration": d == 0 and k == "sleep"}, pc,
                              {"task": tid, "step": step, "cycle": cyc, "asked_for": want})
                return
            if cyc < prev_cycle:
                res.violation({"clause": "virtual_time_went_backwards"}, pc, {"at": (tid, step), "cycle": cyc, "prev": prev_cycle})
                return
            prev_cycle = cyc
        if any(seen[t] != len(exp[t]) for t in range(ntasks)):
            res.violation({"clause": "resumption_missing"}, pc, {"seen": seen})
            return
        cycles = [c for _, _, c in log]
        if len(set(cycles)) < len(cycles):
            shared = True
        # ---- run results: clock monotone, executed cycles add up, budgets respected ---------------------------------
        res.monitor("budget_respected", len(o["results"]))
        clk = case["clock0"]
        total = 0
        per_call = {}
        for raw in o["log"]:
            per_call.setdefault(raw[3], []).append(raw)
        progress = list(seen)
        done_steps = [0] * ntasks
        for ci, (ev, executed, clock_after, budget) in enumerate(o["results"], start=1):
            if clock_after < clk:
                res.violation({"clause": "driver_clock_went_backwards"}, pc, {"call": ci, "before": clk, "after": clock_after})
                return
            if executed != clock_after - clk:
                res.violation({"clause": "cycles_executed_disagrees_with_clock"}, pc,
                              {"call": ci, "executed": executed, "clock_before": clk, "clock_after": clock_after})
                return
            for tid, step, cyc, _c in per_call.get(ci, []):
                done_steps[tid] = step + 2
                if cyc >= clk + budget and not (budget == 0 and False):
                    res.violation({"clause": "task_ran_beyond_budget"}, pc, {"call": ci, "cycle": cyc, "start": clk, "budget": budget})
                    return
            if ev == -1:
                # nothing that was due inside the budget may be left behind
                for tid in range(ntasks):
                    if done_steps[tid] < len(exp[tid]):
                        nxt = exp[tid][done_steps[tid]]
                        if nxt < clk + budget:
                            res.violation({"clause": "due_task_left_behind"}, pc,
                                          {"call": ci, "task": tid, "due": nxt, "start": clk, "budget": budget})
                            return
            total += executed
            clk = clock_after
        if clk != o["clock_end"] or total != o["clock_end"] - case["clock0"]:
            res.violation({"clause": "cycles_executed_disagrees_with_clock"}, pc, {"total": total, "clock_end": o["clock_end"]})
            return
        # ---- events: exactly once, emission order ----------------------------------------------------------------------
        res.monitor("events_exactly_once_in_order")
        emitted = [e for _t, e, _c in o["emits"]]
        returned = [r[0] for r in o["results"] if r[0] != -1]
        if returned != emitted:
            lost = [e for e in emitted if e not in returned]
            dup = [e for e in set(returned) if returned.count(e) > 1]
            res.violation({"clause": "events_not_exactly_once_in_order",
                           "how": "phantom" if any(e not in emitted for e in returned) else
                           ("lost" if lost else ("duplicated" if dup else "reordered"))}, pc,
                          {"emitted": emitted, "returned": returned})
            return
        want_events = []
        for t in case["tasks"]:
            if t["start_emit"] is not None:
                want_events.append(t["start_emit"])
            for st in t["steps"]:
                if st[0] == "park":
                    break
                if st[2] is not None:
                    want_events.append(st[2])
        if sorted(emitted) != sorted(want_events):
            res.violation({"clause": "harness_emit_log_incomplete"}, pc, {"emitted": emitted, "want": want_events})
            return
        # ---- partition invariance --------------------------------------------------------------------------------------
        res.monitor("partition_invariance")
        if base_log is None:
            base_log, base_events = log, returned
        else:
            if log != base_log:
                first = next((i for i, (a, b) in enumerate(zip(log, base_log)) if a != b), None)
                res.violation({"clause": "order_depends_on_partition"}, pc,
                              {"first_difference": first, "single_budget": base_log[:12], "this": log[:12]})
                return
            if returned != base_events:
                res.violation({"clause": "event_order_depends_on_partition"}, pc, {"single_budget": base_events, "this": returned})
                return
    if shared or base_events:
        res.nontrivial("sched", repr(case["tasks"])[:200], case["clock0"])


def run_cases(res: Result, cases, partitions_for):
    from .. import rust
    payload = []
    index = []
    for ci, case in enumerate(cases):
        parts = list(partitions_for(case))
        # the same task set with OTHER users of the thread between the calls: a second live driver (created after or before
        # this one) and host code blocking on a future; nothing of that may change what this driver's tasks observe
        k = len(index)
        parts += [{"budgets": parts[k % len(parts)], "disturb": (1, 2, 5, 3, 7)[k % 5]},
                  {"budgets": parts[0], "disturb": (5, 1, 3, 2, 6)[k % 5]}]
        for pi, p in enumerate(parts):
            if isinstance(p, dict):
                payload.append(dict(case, id=len(payload), budgets=p["budgets"], disturb=p["disturb"]))
            else:
                payload.append(dict(case, id=len(payload), budgets=p))
        index.append(parts)
    outs = rust.run("sched", payload, timeout=1800)
    k = 0
    for case, parts in zip(cases, index):
        res.evaluations += 1
        judge(res, case, outs[k:k + len(parts)], parts)
        k += len(parts)
    if cases and len(res.samples) < 2:
        res.sample({"tasks": cases[len(cases) // 2]["tasks"],
                    "partitions": [(p if isinstance(p, list) else p["budgets"])[:6] for p in index[len(cases) // 2]]})


# ------------------------------------------------------------------------------------------------------------------
# CPU equivalence

CPU_KEYS_SKIP = ()


def cpu_jobs(r, n, tier):
    from .. import programs
    from . import c16
    jobs = []
    kc = c16.key_codes()
    for _ in range(n):
        slice_ = r.choice((1, 2, 3, 10, 10000))
        if r.random() < 0.2:
            # a program that raises interrupt requests ITSELF (store into ISR) with timers off: the request appears in the
            # middle of a step(n) call, where only the per-instruction bookkeeping of the loop can pick it up
            from ..machine import le3, ROM_BASE, VECTOR, ENTRY
            src = r.choice((0x01, 0x02, 0x08))
            reset = bytes([0x0F]) + le3(0xB9000) + bytes([0x32, 0xCC, 0xFB, 0x80 | src])
            loop = bytes([0x32, 0x79, 0xFC, src]) + bytes([0x00] * r.randrange(0, 4)) + bytes([0x6C, 0x00])
            loop += bytes([0x13, len(loop) + 2])
            handler = bytes([0x00, 0x32, 0x71, 0xFC, 0xFF ^ src]) + bytes([0x32, 0x79, 0xFC, r.choice((0, 0, src ^ 0x0B & 0x0B))]) + bytes([0x01])
            h = ROM_BASE + 0x100
            job = {"mode": "cpu", "code": [[ROM_BASE, (reset + loop).hex()], [h, handler.hex()], [VECTOR, le3(h).hex()],
                                             [ENTRY, le3(ROM_BASE).hex()]], "rom_ro": True,
                   "regs": {"PC": ROM_BASE, "S": 0xB9000}, "imem": {"251": 0, "252": 0},
                   "timer": {"enabled": False, "mti": 0, "sti": 0, "kb_irq": False}, "kind": "template:self_isr"}
            total = r.choice((7, 20, 50, 120))
        elif r.random() < 0.5:
            prog = programs.gen_program(r, max_instr=30)
            imem = {str(int(a) - 0x100000): v for a, v in prog["mem"].items() if int(a) >= 0x100000}
            regs = dict(prog["regs"])
            f = regs.pop("FC") | (regs.pop("FZ") << 1)
            regs.pop("FHI", None)
            regs["F"] = f
            regs["PC"] = prog["addr"]
            job = {"mode": "cpu", "code": [[prog["addr"], prog["bytes"]]], "regs": regs, "imem": imem,
                   "timer": {"enabled": r.random() < 0.5, "mti": r.choice((1, 3, 7)), "sti": r.choice((0, 5)), "kb_irq": True},
                   "kind": "program"}
            total = r.choice((1, 7, 30, 60))
        else:
            scen, nsteps, placed = c16.make_run(r, "quick")
            pre = []
            for i in sorted(placed):
                ev = placed[i]
                if ev[0] in ("press", "release"):
                    pre.append([ev[0], kc[ev[1]]])
                else:
                    pre.append(list(ev))
            if r.random() < 0.5:
                pre.insert(0, ["stepn", r.randrange(1, 30)])
            job = {"mode": "cpu", "code": scen["code"], "rom_ro": True, "regs": scen["regs"],
                   "imem": {str(k): v for k, v in scen["imem"].items()}, "timer": scen["timer"], "pre": pre,
                   "kind": f"template:{scen['main']}:{scen['body']}"}
            total = r.choice((1, 7, 50, 120, 300))
        # split `total` into 1-3 calls
        cuts = sorted(r.randrange(0, total + 1) for _ in range(r.randrange(0, 3)))
        ns = [b - a for a, b in zip([0] + cuts, cuts + [total])]
        job["n"] = ns
        job["slice"] = slice_
        jobs.append(job)
    return jobs


def run_cpu(res: Result, jobs):
    from .. import rust
    outs = rust.run("sched", [dict(j, id=i) for i, j in enumerate(jobs)], timeout=1800)
    for j, o in zip(jobs, outs):
        res.evaluations += 1
        res.monitor("cpu_async_vs_sync")
        case = {"kind": j["kind"], "n": j["n"], "slice": j["slice"], "timer": j["timer"], "code": j["code"][:1],
                "pre": j.get("pre", [])[:12], "regs": j["regs"]}
        if o.get("async_err") != o.get("sync1_err") and (o.get("async_err") or o.get("sync1_err")):
            res.violation({"clause": "async_error_differs_from_sync", "kind": j["kind"].split(":")[0]}, case,
                          {"async": o.get("async_err"), "sync": o.get("sync1_err")})
            continue
        if o.get("async_err"):
            res.count("cpu_case_errors_on_both")
            continue
        a, s1, s = o["async"], o["sync1"], o["sync"]
        d = [k for k in s1 if a.get(k) != s1.get(k)]
        if d:
            res.violation({"clause": "async_cpu_differs_from_sync", "kind": j["kind"].split(":")[0], "fields": sorted(d)}, case,
                          {k: (s1.get(k), a.get(k)) for k in d if k != "imem"})
            continue
        d2 = [k for k in s1 if s.get(k) != s1.get(k)]
        if d2 and not o.get("sync_err"):
            res.violation({"clause": "step_n_differs_from_n_steps", "kind": j["kind"].split(":")[0], "fields": sorted(d2)}, case,
                          {k: (s1.get(k), s.get(k)) for k in d2 if k != "imem"})
            continue
        tot_i = sum(x[0] for x in o["stats"])
        tot_c = sum(x[1] for x in o["stats"])
        if len(o["stats"]) != len(j["n"]):
            res.violation({"clause": "async_stats_missing"}, case, o["stats"])
            continue
        res.count("cpu_equal")
        res.count("cpu_stats_instr_total", tot_i)
        if a.get("instrs", 0) >= 5:
            res.nontrivial("cpu", j["kind"], repr(j["code"][:1])[:120], tuple(j["n"]), j["slice"])
        _ = tot_c
    if jobs and len(res.samples) < 3:
        j = jobs[0]
        res.sample({"cpu_case": {"kind": j["kind"], "n": j["n"], "slice": j["slice"], "timer": j["timer"]}})


# ------------------------------------------------------------------------------------------------------------------

def plan(tier, seed):
    specs = []
    idx = 0
    parts = 8 if tier == "quick" else 32
    for i in range(parts):
        specs.append({"kind": "enum1", "part": i, "parts": parts, "seed": seed, "tier": tier, "idx": idx}); idx += 1
    for i in range(parts):
        specs.append({"kind": "enum2", "part": i, "parts": parts, "seed": seed, "tier": tier, "idx": idx}); idx += 1
    if tier == "thorough":
        for i in range(64):
            specs.append({"kind": "enum3", "part": i, "parts": 64, "seed": seed, "tier": tier, "idx": idx}); idx += 1
    for i in range(parts):
        specs.append({"kind": "random", "part": i, "parts": parts, "seed": seed, "tier": tier, "idx": idx}); idx += 1
    for i in range(parts):
        specs.append({"kind": "cpu", "part": i, "parts": parts, "seed": seed, "tier": tier, "idx": idx}); idx += 1
    for i in range(1 if tier == "quick" else 8):
        specs.append({"kind": "valgrind", "part": i, "seed": seed, "tier": tier, "idx": idx}); idx += 1
    return specs


def seeded_partitions(r):
    out = [[BIG]]
    out.append([r.choice((0, 1, 2, 3, 7))])
    for _ in range(2):
        out.append([r.choice((0, 1, 2, 5, 11, 64)) for _ in range(r.randrange(2, 12))])
    return out


def run_shard(spec) -> Result:
    res = Result()
    r = rng(spec["seed"], "c18", spec["idx"])
    tier = spec["tier"]
    kind = spec["kind"]
    if kind == "enum1":
        variants = task_variants(FULL, 3)
        mine = [v for i, v in enumerate(variants) if i % spec["parts"] == spec["part"]]
        cases = [build_case(i, [v]) for i, v in enumerate(mine)]
        res.count("enumerated_single_tasks", len(cases))
        run_cases(res, cases, lambda c: PARTITIONS + [[2, 0, 5, 1]])
    elif kind == "enum2":
        variants = task_variants(SMALL, 2)
        pairs = [(a, b) for i, a in enumerate(variants) for b in variants]
        mine = pairs[spec["part"]::spec["parts"]]
        cases = [build_case(i, list(p)) for i, p in enumerate(mine)]
        res.count("enumerated_task_pairs", len(cases))
        run_cases(res, cases, lambda c: PARTITIONS)
    elif kind == "enum3":
        variants = task_variants(SMALL, 2, start_emit_opts=(False,))
        n = len(variants)
        cases = []
        k = 0
        for a in range(n):
            for b in range(n):
                for c in range(n):
                    if k % spec["parts"] == spec["part"]:
                        cases.append(build_case(len(cases), [variants[a], variants[b], variants[c]]))
                    k += 1
        res.count("enumerated_task_triples", len(cases))
        for lo in range(0, len(cases), 4000):
            run_cases(res, cases[lo:lo + 4000], lambda c: [[BIG], [1], [3], [0]])
    elif kind == "random":
        n = (3000 if tier == "quick" else 60000) // spec["parts"]
        cases = []
        for i in range(n):
            nt = r.randrange(1, 5)
            pal = FULL + [("sleep", 100), ("sleep", 65536), ("sleep", (1 << 33) + 5)]
            vs = []
            for _t in range(nt):
                steps = tuple((r.choice(pal if r.random() < 0.3 else FULL), r.random() < 0.4) for _s in range(r.randrange(0, 7)))
                if r.random() < 0.3 and steps:
                    # a sleep future made before another sleep is awaited, and awaited afterwards
                    j = r.randrange(len(steps))
                    steps = steps[:j] + ((("nap2", r.choice((0, 1, 2, 3, 7)), r.choice((0, 1, 2, 5))), steps[j][1]),) + steps[j + 1:]
                if r.random() < 0.15:
                    # "park forever": a sleep whose deadline does not fit in 64 bits, issued wherever the task happens to be
                    steps = steps + ((("park", r.choice((0, 1, 2, 7))), False), (("sleep", 1), True))
                vs.append((r.random() < 0.3, steps))
            cases.append(build_case(i, vs, clock0=r.choice((0, 0, 7, 12345, 1 << 40))))
        def parts_for(c):
            far = any(st[0] == "sleep" and st[1] > 100 for t in c["tasks"] for st in t["steps"])
            if far:   # small budgets would need ~2^33 escalation calls: use budgets that reach the far wake-ups
                return [[BIG], [1 << 35], [(1 << 36) + 1, 1 << 35]]
            return seeded_partitions(r)
        run_cases(res, cases, parts_for)
    elif kind == "valgrind":
        # the scheduler's unsafe sites (Pin::new_unchecked, hand-made waker) and the raw-pointer bus of step() under memcheck
        from .. import rust
        cases = []
        for i in range(60 if tier == "quick" else 400):
            vs = [(r.random() < 0.3, tuple((r.choice(FULL), r.random() < 0.4) for _s in range(r.randrange(0, 6))))
                  for _t in range(r.randrange(1, 5))]
            cases.append(build_case(i, vs, clock0=r.choice((0, 7)), budgets=r.choice(PARTITIONS)))
        cpu = cpu_jobs(r, 6 if tier == "quick" else 40, tier)
        outs, rep = rust.run_valgrind("sched", cases + [dict(j, id=1000 + i) for i, j in enumerate(cpu)])
        if not rep["available"]:
            res.count("valgrind_not_available")
        else:
            res.evaluations += 1
            res.monitor("valgrind_memcheck", len(cases) + len(cpu))
            if rep["errors"] or rep.get("rc") not in (0,):
                res.violation({"clause": "memcheck_error_in_scheduler_or_step"}, {"cases": len(cases), "cpu": len(cpu)}, rep["log"][-800:])
            elif outs is not None:
                plain = rust.run("sched", cases)
                if [o.get("log") for o in outs[:len(cases)]] != [o.get("log") for o in plain]:
                    res.violation({"clause": "result_differs_under_memcheck"}, {"cases": len(cases)}, "")
    elif kind == "cpu":
        n = (480 if tier == "quick" else 8000) // spec["parts"]
        jobs = cpu_jobs(r, n, tier)
        for lo in range(0, len(jobs), 100):
            run_cpu(res, jobs[lo:lo + 100])
    return res


def replay(case):
    return []
