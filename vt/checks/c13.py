"""C13 - timers fire exactly on period boundaries however time advances."""
from __future__ import annotations

from ..core import Result, rng

PROPERTY = "C13"
LEVEL = "exploration"
NEEDS = ("rust", "deps")
EXHAUSTIVE = {"quick": False, "thorough": False}
REQUIRED_MONITORS = ["python_vs_reference", "rust_vs_reference", "python_vs_rust", "every_cycle_exactly_once",
                     "advance_contract", "machine_level", "py_fires_per_boundary", "rearm_inside_handler"]
RULE = ("period pairs: ALL (p,q) in 0..12 x 0..12 x enabled in {0,1} (complete, both tiers) + sampled large periods "
        "(primes, 2^k+-1, the real defaults); cycle sequences: every-cycle for 5*lcm, gap styles {1,2,p-1,p,p+1,2p,2p+1,10p+3, "
        "random}, with resets and snapshot->restore on a fresh context at seeded points. The same monotone sequence is fed to "
        "the real TimerScheduler.advance (Python) and TimerContext::tick_timers (Rust, real MemoryImage so ISR bits are "
        "observed); every return value and next target is compared with reference arithmetic (fires iff enabled, period>0, "
        "cycle>=target; target := smallest base+k*period > cycle) and across cores. icontract postcondition on the real "
        "advance(). distinct_nontrivial = distinct (periods, enabled, sequence style, seed) runs with at least one fire.")
ASSUMPTIONS = ["for gaps > one period the statement promises 'fired once, target strictly in the future' only",
               "Rust tick_timers is driven without finalize_instruction (instruction-boundary re-phasing is machine level)"]

_contract = {"installed": False, "evals": 0}


def install_contract():
    if _contract["installed"]:
        return
    import icontract
    from pce500 import scheduler as sch

    class AdvanceBroken(Exception):
        pass

    def post(self, cycle_count, result):
        _contract["evals"] += 1
        if not self.enabled:
            return list(result) == []
        ok = True
        if self.mti_period > 0:
            ok = ok and self._next_mti > cycle_count
        if self.sti_period > 0:
            ok = ok and self._next_sti > cycle_count
        return ok

    sch.TimerScheduler.advance = icontract.ensure(
        post, error=lambda self, cycle_count: AdvanceBroken(f"advance({cycle_count}) left a target in the past"))(
        sch.TimerScheduler.advance)
    _contract["installed"] = True
    _contract["exc"] = AdvanceBroken


class RefTimer:
    def __init__(self, enabled, p, q):
        self.enabled, self.p, self.q = enabled, p, q
        self.nm, self.ns = p, q

    def reset(self, c):
        self.nm, self.ns = c + self.p, c + self.q

    def tick(self, c):
        fm = fs = False
        if self.enabled:
            if self.p > 0 and c >= self.nm:
                fm = True
                self.nm += ((c - self.nm) // self.p + 1) * self.p
            if self.q > 0 and c >= self.ns:
                fs = True
                self.ns += ((c - self.ns) // self.q + 1) * self.q
        return fm, fs


def gen_sequence(r, p, q, style, limit):
    """-> ops list [["tick", c] | ["reset", c] | ["snap", c] | ["clear_isr"]]"""
    import math
    ops = []
    c = 0
    base = max(p, q, 1)
    if style == "every":
        l = (p * q // math.gcd(p, q)) if p and q else max(p, q, 1)
        n = min(5 * l + 3, limit)
        for c in range(0, n + 1):
            ops.append(["tick", c])
            if c % 7 == 3:
                ops.append(["clear_isr"])
        return ops
    for _ in range(limit):
        pp = p or q or 3
        gap = {"1": 1, "2": 2, "p-1": max(1, pp - 1), "p": pp, "p+1": pp + 1, "2p": 2 * pp, "2p+1": 2 * pp + 1,
               "10p+3": 10 * pp + 3}.get(style)
        if gap is None:
            gap = r.choice((1, 1, 2, 3, base - 1 or 1, base, base + 1, 2 * base + 1, r.randrange(1, 4 * base + 2)))
        c += gap
        roll = r.random()
        if style == "mixed" and roll < 0.04:
            ops.append(["reset", c])
        elif style == "mixed" and roll < 0.08:
            ops.append(["snap", c])
        ops.append(["tick", c])
        if roll > 0.7:
            ops.append(["clear_isr"])
    return ops


def run_config(res: Result, cfgs):
    """cfgs: list of (enabled, p, q, style, ops)."""
    from .. import rust
    from pce500.scheduler import TimerScheduler, TimerSource
    install_contract()
    rr = rust.run("timer", [{"id": i, "enabled": bool(e), "mti": p, "sti": q, "ops": ops}
                            for i, (e, p, q, style, ops) in enumerate(cfgs)])
    for (e, p, q, style, ops), rout in zip(cfgs, rr):
        res.evaluations += 1
        ref = RefTimer(bool(e), p, q)
        py = TimerScheduler(mti_period=p, sti_period=q, enabled=bool(e))
        case = {"enabled": e, "mti": p, "sti": q, "style": style, "ops": ops[:400]}
        fires = 0
        isr_shadow = 0
        last_tick = -1
        boundaries_m = boundaries_s = fired_m = fired_s = 0
        bad = False
        for i, op in enumerate(ops):
            if op[0] == "reset":
                ref.reset(op[1])
                py.reset(cycle_base=op[1])
                continue
            if op[0] == "snap":
                # Python restore path: a fresh scheduler gets the saved targets (as load_snapshot does)
                # (exactly the order load_snapshot uses: periods, reset at the current cycle, then the saved targets)
                saved = (py.next_mti, py.next_sti)
                fresh = TimerScheduler(mti_period=py.mti_period, sti_period=py.sti_period, enabled=py.enabled)
                fresh.reset(cycle_base=op[1])
                fresh.next_mti = saved[0]
                fresh.next_sti = saved[1]
                py = fresh
                continue
            if op[0] == "clear_isr":
                isr_shadow = 0
                continue
            c = op[1]
            want = ref.tick(c)
            try:
                fired = list(py.advance(c))
            except _contract["exc"] as ex:
                res.violation({"clause": "advance_contract"}, case, {"step": i, "cycle": c, "err": str(ex)})
                bad = True
                break
            got_py = (TimerSource.MTI in fired, TimerSource.STI in fired)
            ro = rout["out"][i]
            got_rs = (ro[0], ro[1])
            res.monitor("python_vs_reference")
            res.monitor("rust_vs_reference")
            res.monitor("python_vs_rust")
            if got_py != want:
                res.violation({"clause": "python_fire_sequence", "style": style}, case,
                              {"step": i, "cycle": c, "got": got_py, "want": want, "next": (py.next_mti, py.next_sti)})
                bad = True
                break
            if got_rs != want:
                res.violation({"clause": "rust_fire_sequence", "style": style}, case,
                              {"step": i, "cycle": c, "got": got_rs, "want": want, "next": ro[2:4]})
                bad = True
                break
            if e and p > 0 and (py.next_mti != ref.nm or ro[2] != ref.nm or not py.next_mti > c):
                res.violation({"clause": "next_target", "timer": "MTI"}, case,
                              {"step": i, "cycle": c, "py": py.next_mti, "rs": ro[2], "ref": ref.nm})
                bad = True
                break
            if e and q > 0 and (py.next_sti != ref.ns or ro[3] != ref.ns or not py.next_sti > c):
                res.violation({"clause": "next_target", "timer": "STI"}, case,
                              {"step": i, "cycle": c, "py": py.next_sti, "rs": ro[3], "ref": ref.ns})
                bad = True
                break
            isr_shadow |= (1 if want[0] else 0) | (2 if want[1] else 0)
            if (ro[4] & 3) != isr_shadow:
                res.violation({"clause": "fire_without_status_bit"}, case,
                              {"step": i, "cycle": c, "isr": ro[4], "want": isr_shadow})
                bad = True
                break
            fires += int(want[0]) + int(want[1])
            if style == "every":
                res.monitor("every_cycle_exactly_once")
                # exactly-once: on an every-cycle sequence a timer fires iff cycle is a positive multiple of its period
                em = bool(e and p > 0 and c > 0 and c % p == 0)
                es = bool(e and q > 0 and c > 0 and c % q == 0)
                if got_py != (em, es) or got_rs != (em, es):
                    res.violation({"clause": "not_exactly_once_per_boundary"}, case,
                                  {"cycle": c, "py": got_py, "rs": got_rs, "want": (em, es)})
                    bad = True
                    break
        if fires and not bad:
            res.nontrivial(e, p, q, style, len(ops), ops[-1][1] if ops and len(ops[-1]) > 1 else 0)
        res.table("runs_by_style", style)
    res.monitors["advance_contract"] = _contract["evals"]


def run_machine(res: Result, r, n, grid=False):
    """Machine level: NOP/WAIT/HALT programs with IMR=0 (no handlers) on PCE500Emulator and CoreRuntime; the driver
    clears ISR after every observation. Clauses: target strictly in the future and phase preserved (multiple of the
    period, first boundary after the last tick); status bit rises iff a boundary was crossed; rises == boundaries
    passed (== next/p - 1) for 1-cycle-per-step programs, <= when WAIT spans several periods; disabled/zero never fire."""
    from .. import machine
    from ..machine import le3, ROM_BASE, VECTOR, ENTRY
    from .c12 import key_codes
    jobs = []
    mains = {"nop": bytes([0x00, 0x00, 0x13, 0x04]), "halt": bytes([0xDE, 0x00, 0x13, 0x04]),
             "wait": bytes([0x0B, 0x00, 0x00, 0xEF, 0x00, 0x13, 0x07]),
             # the program executes the RESET instruction every few steps (control restarts at the entry vector, which
             # points at the same code): whatever RESET does to the interrupt bookkeeping, the timers keep their grid - no
             # boundary fires twice, none is skipped
             "reset": bytes([0x00, 0x00, 0x00, 0x00, 0x00, 0xFF])}
    todo = [None] * n
    if grid:   # complete small grid: every (mti, sti) in {0,1,3} x {0,1,2,5} x WAIT count, timers enabled
        todo = [("wait", w, p_, q_) for p_ in (0, 1, 3) for q_ in (0, 1, 2, 5) for w in (1, 2, 3, 5, 9, 20)] + \
               [(k_, 0, p_, q_) for k_ in ("nop", "halt", "reset") for p_ in (0, 1, 3) for q_ in (0, 1, 2, 5)]
    for fixed in todo:
        kind = r.choice(list(mains)) if fixed is None else fixed[0]
        code = bytearray(mains[kind])
        if kind == "wait":
            code[1] = r.choice((1, 2, 3, 5, 9, 20)) if fixed is None else fixed[1]
        p, q = r.choice((0, 1, 2, 3, 4, 5, 7, 9, 16)), r.choice((0, 1, 2, 3, 5, 8, 11))
        en = r.random() < 0.85
        if fixed is not None:
            p, q, en = fixed[2], fixed[3], True
        # half of the runs also have the keyboard live (columns strobed, a key pressed at some point): key events are
        # latched on main-timer ticks, and asserting KEYI must not disturb the timer bits set on the same tick
        keys = fixed is None and r.random() < 0.5
        reset = bytes([0x0F]) + le3(0xB9000) + bytes([0x32, 0xCC, 0xF0, 0xFF, 0x32, 0xCC, 0xF1, 0x07, 0x32, 0xCC, 0xFB, 0x00])
        scen = {"code": [[ROM_BASE, (reset + bytes(code)).hex()], [VECTOR, le3(ROM_BASE).hex()], [ENTRY, le3(ROM_BASE).hex()]],
                "regs": {"PC": ROM_BASE, "S": 0xB9000}, "imem": {0xFB: 0, 0xFC: 0},
                "timer": {"enabled": en, "mti": p, "sti": q, "kb_irq": keys}}
        script = [("obs",)]
        nst = r.randrange(30, 90)
        press_at = {r.randrange(4, nst): r.choice(("KEY_Q", "KEY_A", "KEY_ENTER")) for _k in range(r.randrange(1, 3))} if keys else {}
        # one run in five: the Python emulator is reset again after it has run for a while (reset point: the clock restarts
        # at 0 and the timers must be armed relative to THAT; judged by the per-step target clause only)
        reset_at = r.randrange(8, nst - 4) if fixed is None and r.random() < 0.2 else None
        for _s in range(nst):
            if _s in press_at:
                script += [("press", press_at[_s]), ("obs",)]
            if _s == reset_at:
                script += [("pyreset",), ("wimem", 0xFC, 0), ("obs",)]
            script += [("step",), ("wimem", 0xFC, 0), ("obs",)]
        jobs.append((scen, script, kind, p, q, en, reset_at is not None))
    routs = machine.run_rust([(s, sc) for s, sc, *_ in jobs], key_codes())
    for (scen, script, kind, p, q, en, has_reset), (robs, rerr, _) in zip(jobs, routs):
        pm = machine.PyMachine(scen)
        # invariant at a hook (Python): every call of the real scheduler's advance() is counted per source, so that a
        # multi-cycle WAIT can be checked for "one fire per boundary crossed" (the status bit alone cannot show a merge)
        fires = {"MTI": 0, "STI": 0}
        sched = pm.emu._scheduler
        orig_adv = sched.advance

        def counting_advance(cycle_count, _o=orig_adv, _f=fires):
            out = list(_o(cycle_count))
            for src in out:
                name = getattr(src, "name", str(src))
                if name in _f:
                    _f[name] += 1
            return out
        sched.advance = counting_advance
        pobs = pm.run(script)
        if has_reset:
            res.monitor("py_second_reset_runs")
        if en and pobs and not has_reset:
            endc = pobs[-1]["cycles"]
            for name, per in (("MTI", p), ("STI", q)):
                res.monitor("py_fires_per_boundary")
                want = {(endc - 1) // per, endc // per} if per > 0 else {0}
                if fires[name] not in want:
                    res.violation({"clause": "fires_not_one_per_boundary_crossed", "model": "py", "main": kind, "timer": name},
                                  {"model": "py", "main": kind, "mti": p, "sti": q, "enabled": en, "steps": len(pobs)},
                                  {"fires": fires[name], "boundaries_crossed": sorted(want), "end_cycle": endc})
        for model, obs in (("py", pobs), ("rs", robs)):
            res.evaluations += 1
            res.monitor("machine_level")
            case = {"model": model, "main": kind, "mti": p, "sti": q, "enabled": en, "steps": len(obs)}
            rises = [0, 0]
            # one record per "step"/"obs" op of the script, in order: keep the records produced by the steps
            kinds_ = [op[0] for op in script if op[0] in ("step", "obs")]
            steps = [o for k_, o in zip(kinds_, obs) if k_ == "step"]
            bad = None
            for o in steps:
                for bit, per, key in ((0, p, "next_mti"), (1, q, "next_sti")):
                    if o["isr"] & (1 << bit):
                        rises[bit] += 1
                        if not en or per == 0:
                            bad = ("disabled_or_zero_period_timer_fired", {"bit": bit, "cycles": o["cycles"]})
                    if en and per > 0:
                        nxt = o[key]
                        lower = o["cycles"] - 1 if model == "py" else o["cycles"]
                        if not (nxt > lower and nxt % per == 0 and nxt - per <= o["cycles"]):
                            bad = ("machine_next_target", {"timer": key, "next": nxt, "cycles": o["cycles"], "period": per})
                if bad:
                    break
            if not bad and en and steps and not (has_reset and model == "py"):
                last = steps[-1]
                for bit, per, key in ((0, p, "next_mti"), (1, q, "next_sti")):
                    if per > 0:
                        passed = last[key] // per - 1
                        # (Python ticks at the START of a step: a bit raised there is wiped by the documented "ISR <- 0" of a
                        #  RESET executed in the same step, so the status bit under-counts on that model - not judged exactly)
                        exact = kind != "wait" and not (kind == "reset" and model == "py")
                        if (exact and rises[bit] != passed) or (not exact and not (1 <= rises[bit] <= passed if passed else rises[bit] == 0)):
                            bad = ("machine_fire_count", {"timer": key, "rises": rises[bit], "boundaries_passed": passed,
                                                          "cycles": last["cycles"], "period": per})
                            break
            if bad:
                res.violation({"clause": bad[0], "model": model, "main": kind}, case, bad[1])
            elif sum(rises):
                res.nontrivial("machine", model, kind, p, q, en, len(steps))


def run_rearm(res: Result, tier):
    """The host re-arms the timers (TimerContext::reset / TimerScheduler.reset at the current cycle) at every step of a
    window that covers the main loop AND the inside of a timer interrupt handler. Bounded progress afterwards: the main
    timer keeps firing - no stretch longer than two periods plus the handler's length goes by without a main-timer
    interrupt being taken (handlers are short, the source stays enabled)."""
    from .. import machine
    from ..machine import le3, ROM_BASE, VECTOR, ENTRY
    from .c12 import key_codes
    handler = ROM_BASE + 0x100
    jobs = []
    for p in (5, 7, 9, 11):
        for t in range(8, 44, 1 if tier == "thorough" else 2):
            reset = bytes([0x0F]) + le3(0xB9000) + bytes([0x32, 0xCC, 0xFC, 0x00, 0x32, 0xCC, 0xFB, 0x81])
            main = bytes([0x00, 0x00, 0x00, 0x13, 0x05])
            hnd = bytes([0x00, 0x00, 0x32, 0xCC, 0xFC, 0x00, 0x00, 0x01])       # NOP NOP MV (ISR),0 NOP RETI
            scen = {"code": [[ROM_BASE, (reset + main).hex()], [handler, hnd.hex()], [VECTOR, le3(handler).hex()],
                             [ENTRY, le3(ROM_BASE).hex()]],
                    "regs": {"PC": ROM_BASE, "S": 0xB9000}, "imem": {0xFB: 0, 0xFC: 0},
                    "timer": {"enabled": True, "mti": p, "sti": 0, "kb_irq": False}}
            for restart in (False, True):
                script = [("obs",)]
                for i in range(150):
                    if i == t:
                        if restart:
                            # ... and restarts the program from its main loop (Rust only: the Python emulator's way of
                            # restarting is PCE500Emulator.reset(), covered by the "second reset" runs)
                            script += [("treset", ROM_BASE + len(reset), 0xB9000), ("wimem", 0xFC, 0), ("wimem", 0xFB, 0x81)]
                        else:
                            script.append(("treset",))
                    script.append(("step",))
                jobs.append((scen, script, p, t, restart))
    routs = machine.run_rust([(s_, sc) for s_, sc, _p, _t, _r in jobs], key_codes())
    for (scen, script, p, t, restart), (robs, rerr, _raw) in zip(jobs, routs):
        if restart:
            # Python: the emulator's own restart is PCE500Emulator.reset() (the program then runs its reset code again and
            # re-enables the main timer's interrupt) - at the same points, in particular while the handler is running
            pscript = [op if op[0] != "treset" else ("pyreset",) for op in script if op[0] != "wimem"]
            pobs = machine.PyMachine(scen).run(pscript)
        else:
            pobs = machine.PyMachine(scen).run(script)
        for model, obs in (("py", pobs), ("rs", robs)):
            if obs is None:
                continue
            res.evaluations += 1
            res.monitor("rearm_inside_handler")
            steps = obs[1:]
            if len(steps) < 150:
                res.violation({"clause": "rearm_run_incomplete", "model": model}, {"model": model, "mti": p, "rearm_at": t},
                              {"steps": len(steps), "err": rerr if model == "rs" else None})
                continue
            in_handler_at_rearm = steps[t - 1]["in_irq"] if t >= 1 else False
            last = steps[t - 1]["cycles"]
            prev_cnt = steps[t - 1]["irq_mti"]
            worst = 0
            for o in steps[t:]:
                if o["irq_mti"] != prev_cnt:
                    worst = max(worst, o["cycles"] - last)
                    last, prev_cnt = o["cycles"], o["irq_mti"]
            worst = max(worst, steps[-1]["cycles"] - last)
            if worst > 2 * p + 16:
                res.violation({"clause": "timer_stops_firing_after_rearm", "model": model, "in_handler": bool(in_handler_at_rearm),
                               "program_restarted": restart},
                              {"model": model, "mti": p, "rearm_at_step": t, "restart": restart},
                              {"longest_stretch_without_main_timer_interrupt": worst, "period": p,
                               "entries_total": steps[-1]["irq_mti"]})
            else:
                res.nontrivial("rearm", model, p, t, bool(in_handler_at_rearm), restart)
                res.table("rearm_points", f"{model}:{'handler' if in_handler_at_rearm else 'main'}:{'restart' if restart else 'rearm'}")


def plan(tier, seed):
    specs = []
    idx = 0
    for i in range(4 if tier == "quick" else 16):
        specs.append({"kind": "machine", "seed": seed, "tier": tier, "idx": 1000 + i})
    specs.append({"kind": "machine", "grid": True, "seed": seed, "tier": tier, "idx": 1100})
    specs.append({"kind": "rearm", "seed": seed, "tier": tier, "idx": 1200})
    for p in range(13):
        specs.append({"kind": "small", "p": p, "seed": seed, "tier": tier, "idx": idx}); idx += 1
    parts = 4 if tier == "quick" else 16
    for i in range(parts):
        specs.append({"kind": "random", "part": i, "parts": parts, "seed": seed, "tier": tier, "idx": idx}); idx += 1
    return specs


STYLES = ["every", "1", "2", "p-1", "p", "p+1", "2p", "2p+1", "10p+3", "random", "mixed"]


def run_shard(spec) -> Result:
    res = Result()
    r = rng(spec["seed"], "c13", spec["idx"])
    cfgs = []
    if spec["kind"] == "rearm":
        run_rearm(res, spec["tier"])
        return res
    if spec["kind"] == "machine":
        run_machine(res, r, 40 if spec["tier"] == "quick" else 400, grid=bool(spec.get("grid")))
        return res
    if spec["kind"] == "small":
        p = spec["p"]
        for q in range(13):
            for e in (0, 1):
                for style in STYLES:
                    cfgs.append((e, p, q, style, gen_sequence(r, p, q, style, 400 if style == "every" else 60)))
    else:
        n = (2000 if spec["tier"] == "quick" else 100000) // spec["parts"]
        big = [13, 17, 31, 127, 128, 129, 255, 257, 1023, 1025, 4093, 65535, 65537, 2048, 500, 100000, 20000, 1000003]
        for _ in range(n):
            p = r.choice(big + [r.randrange(0, 40)])
            q = r.choice(big + [r.randrange(0, 40)])
            style = r.choice(STYLES[1:])
            cfgs.append((1 if r.random() < 0.9 else 0, p, q, style, gen_sequence(r, p, q, style, r.randrange(5, 80))))
    for lo in range(0, len(cfgs), 300):
        run_config(res, cfgs[lo:lo + 300])
    if cfgs:
        e, p, q, style, ops = cfgs[min(len(cfgs) - 1, 30)]
        res.sample({"enabled": e, "mti": p, "sti": q, "style": style, "ops": ops[:12]})
    return res


def replay(case):
    res = Result()
    run_config(res, [(case["enabled"], case["mti"], case["sti"], case["style"], case["ops"])])
    return res.violations
