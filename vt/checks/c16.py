"""C16 - saving a snapshot and loading it into a fresh emulator does not change the future."""
from __future__ import annotations

import os
import shutil

from ..core import Result, rng
from .. import machine
from ..machine import le3, ROM_BASE, VECTOR, ENTRY

PROPERTY = "C16"
LEVEL = "fault_enumeration"
NEEDS = ("rust",)
EXHAUSTIVE = {"quick": False, "thorough": False}
REQUIRED_MONITORS = ["py_restored_steps", "rs_restored_steps", "py_snapshot_points", "rs_snapshot_points",
                     "save_does_not_perturb", "cross_load_py_to_rs", "cross_load_rs_to_py", "register_blob_layout",
                     "snapshot_inside_software_interrupt", "snapshot_inside_key_handler"]
RULE = ("a ROM template (reset: S, U, KOL/KOH strobe, IMR, LCD on, X := RAM cursor; main loop: read KIL, store through "
        "[X++], INC, LCD data write, CALL sub, then one of {NOP, HALT, OFF, WAIT}; handler: NOP, PUSHU A, body in {empty, "
        "clear ISR, LCD command, KIL read, re-enable bit 7}, POPU A, RETI) runs on the real PCE500Emulator and the real "
        "CoreRuntime with timers of period 1-9 cycles and a seeded input schedule (keys press/release, ON key, firmware "
        "writes of IMR/ISR) between step boundaries. The snapshot point is EVERY step boundary of the run (quick: runs of "
        "24-40 steps; thorough: 40-120 steps): the original saves there and continues; a freshly constructed emulator with "
        "only the same ROM inserted loads the file and is driven with the rest of the schedule for K further steps "
        "(K=30 quick, 45 thorough). One full observation per boundary (PC, BA, I, X, Y, U, S, F, IMR, ISR, all 256 IMEM "
        "bytes, CRC of the RAM windows the program touches, 11 stack bytes, both LCD chips' registers and VRAM CRC, KIL, "
        "keyboard FIFO, power state, interrupt flags, timer targets, cycle/instruction counters) is compared record by "
        "record. Also: the same run without save operations must produce the same records; each model loads the other's "
        "file at every k-th point and the record right after loading is compared with the saver's; registers.bin is "
        "decoded with the documented layout PC3 BA2 I2 X3 Y3 U3 S3 F1 and compared with the live registers. "
        "distinct_nontrivial = distinct (model, power state, in-handler, pending, keys held, FIFO non-empty, call depth>0, "
        "main, body) situations AT the snapshot point whose continuation was compared to the end.")
ASSUMPTIONS = ["the fresh emulator is constructed like the original (same ROM image inserted) and nothing else is configured",
               "behaviour = the architectural observation (registers, IMEM, RAM, stack, LCD, KIL/FIFO, ISR/IMR, power, entry "
               "into handlers); bookkeeping-only differences (counters, statistics) are counted, not judged",
               "continuations are bounded by K steps; K covers several timer periods and the debounce threshold"]

HANDLER = ROM_BASE + 0x100
SUB = ROM_BASE + 0x80
SLEEPS = {"nop": bytes([0x00]), "halt": bytes([0xDE]), "off": bytes([0xDF]), "wait": bytes([0x0B, 0x03, 0x00, 0xEF]),
          # a software interrupt in every round of the loop: the same handler is entered by IR and by hardware delivery, and
          # (body "reenable") hardware interrupts nest inside the IR handler - snapshot points inside both
          "swi": bytes([0xFE])}
BODIES = {
    "empty": b"",
    "clear_isr": bytes([0x32, 0x71, 0xFC, 0xF0]),
    "lcd_cmd": bytes([0x08, 0x45, 0xA8, 0x00, 0x20, 0x00]),
    "kil": bytes([0x32, 0x80, 0xF2, 0x32, 0x71, 0xFC, 0xF0]),
    # reads KIL (queue emptied) but leaves the acknowledge to RETI: what RETI retires depends on what the runtime remembers
    # about the delivered source
    "kil_noack": bytes([0x32, 0x80, 0xF2]),
    "reenable": bytes([0x32, 0x71, 0xFC, 0xF0, 0x32, 0x79, 0xFB, 0x80]),
}
IMR_VALUES = [0x00, 0x04, 0x0F, 0x80, 0x81, 0x84, 0x87, 0x8F, 0x8B, 0xFF]
KEYS = ["KEY_Q", "KEY_A", "KEY_F1", "KEY_ENTER"]
EVENTS = ([("press", k) for k in KEYS] + [("release", k) for k in KEYS] + [("on", 1), ("on", 0)] +
          [("wimem", 0xFB, v) for v in (0x00, 0x8F, 0x84, 0x0F)] +
          [("wimem", 0xFC, 0), ("imem_or", 0xFC, 0x01), ("imem_or", 0xFC, 0x04), ("imem_or", 0xFC, 0x08)] +
          [("wimem", 0xF8, 0x00), ("wimem", 0xF8, 0x5A), ("wimem", 0xEC, 0x10), ("wimem", 0x50, 0x77)])

ARCH = ("pc", "BA", "I", "X", "Y", "U", "S", "f", "imr", "isr", "stack", "imem", "ram_crc", "rom_crc", "lcdwin_crc", "lcd_meta",
        "lcd_crc", "fifo", "power", "kol", "koh")
BOOK = ("in_irq", "irq_total", "irq_key", "irq_mti", "irq_sti", "next_mti", "next_sti", "timer_enabled", "cycles", "instrs",
        "pending", "source", "call_depth", "pressed")
CROSS = ("pc", "BA", "I", "X", "Y", "U", "S", "f", "imr", "isr", "stack", "ram_crc", "lcd_crc", "fifo", "power",
         "in_irq", "next_mti", "next_sti", "timer_enabled", "cycles", "instrs", "pressed", "kol", "koh")


def scenario(main, body, imr0, timer, kb_irq=True, read_kil=True):
    reset = (bytes([0x0F]) + le3(0xB9000) + bytes([0x0E]) + le3(0xBA000) + bytes([0x32, 0xCC, 0xF0, 0xFF]) +
             bytes([0x32, 0xCC, 0xF1, 0x07, 0x32, 0xCC, 0xF8, 0x18, 0x32, 0xCC, 0xFB, imr0, 0x08, 0x3F, 0xA8, 0x00, 0x20, 0x00, 0x0C]) + le3(0xB8100))
    # (the store to 0xC0200 aims at the ROM window: it must stay without effect before and after a restore)
    loop = (bytes([0x32, 0x80, 0xF2, 0xB0, 0x24, 0x6C, 0x00, 0xA8, 0x02, 0x20, 0x00, 0xA8, 0x00, 0x02, 0x0C,
                   # memory-card window: store, load back, keep the loaded value (B0 24: [X++] <- A); LCD status read
                   0xA8, 0x10, 0x00, 0x04, 0x88, 0x10, 0x00, 0x04, 0xB0, 0x24,
                   # the very last byte of the 64 KiB card window: load (what an earlier round / a restore left there), keep,
                   # then store the non-zero value just read back from 0x40010
                   0x88, 0xFF, 0xFF, 0x04, 0xB0, 0x24, 0x88, 0x10, 0x00, 0x04, 0xA8, 0xFF, 0xFF, 0x04,
                   0x88, 0x05, 0x20, 0x00, 0xB0, 0x24,
                   # ... and again, and the right chip's (a status read clears BUSY: the second one sees it clear)
                   0x88, 0x05, 0x20, 0x00, 0xB0, 0x24, 0x88, 0x09, 0x20, 0x00, 0xB0, 0x24,
                   # LCD data read on the left chip (advances its column counter without any write), value kept
                   0x88, 0x0B, 0x20, 0x00, 0xB0, 0x24,
                   0x04, SUB & 0xFF, (SUB >> 8) & 0xFF]) + SLEEPS[main])
    if not read_kil:
        loop = loop[3:]      # never read KIL: key events pile up in the queue (a full queue is a state to snapshot too)
    loop += bytes([0x13, len(loop) + 2])
    sub = bytes([0x40, 0x11, 0x32, 0xA0, 0x50, 0x06])
    handler = bytes([0x00, 0x28]) + BODIES[body] + bytes([0x38, 0x01])
    pieces = [[ROM_BASE, (reset + loop).hex()], [SUB, sub.hex()], [HANDLER, handler.hex()], [VECTOR, le3(HANDLER).hex()],
              [ENTRY, le3(ROM_BASE).hex()]]
    return {"code": pieces, "regs": {"PC": ROM_BASE, "S": 0xB9000, "U": 0xBA000}, "imem": {0xFB: 0, 0xFC: 0},
            "timer": dict(timer, kb_irq=kb_irq), "main": main, "body": body, "imr0": imr0}


def bare(scen):
    return {"code": scen["code"], "bare": True, "main": scen["main"], "body": scen["body"]}


def make_run(r, tier):
    main = r.choice(list(SLEEPS))
    body = r.choice(list(BODIES))
    imr0 = r.choice(IMR_VALUES)
    timer = {"enabled": r.random() < 0.9, "mti": r.choice((1, 2, 3, 4, 5, 7, 9)), "sti": r.choice((0, 2, 3, 5, 8, 9))}
    flood = r.random() < 0.15
    if flood:
        # several keys held and never read: press + repeat events fill the 8-entry queue within a few dozen timer ticks
        body = r.choice(("empty", "lcd_cmd"))
        timer = {"enabled": True, "mti": 1, "sti": r.choice((0, 3))}
        main = r.choice(("nop", "wait"))
    scen = scenario(main, body, imr0, timer, kb_irq=r.random() < 0.85, read_kil=not flood)
    n = r.randrange(24, 41) if tier == "quick" else r.randrange(40, 121)
    placed = {}
    for _ in range(r.randrange(0, 9)):
        placed[r.randrange(4, n)] = r.choice(EVENTS)
    if flood:
        n = max(n, 56)
        for j, kname in enumerate(KEYS):
            placed[4 + j] = ("press", kname)
    return scen, n, placed


def script_original(n, placed, paths):
    """boundary i (before step i): [event_i, obs]?  [save_i]?  step_i   ->  script, index map"""
    s = [("obs",)]
    for i in range(n):
        if i in placed:
            s += [placed[i], ("obs",)]
        if paths and i in paths:
            s.append(("save", paths[i]))
        s.append(("step",))
    return s


def script_restored(i, n, placed, path, k):
    s = [("load_into", path), ("obs",)]
    for j in range(i, min(n, i + k)):
        if j > i and j in placed:
            s += [placed[j], ("obs",)]
        s.append(("step",))
    return s


def index_records(script, obs):
    """-> before[i], after[i] for the original run (records are produced by 'obs' and 'step' ops only)."""
    before, after = {}, {}
    it = iter(obs)
    last = None
    i = 0
    for op in script:
        if op[0] == "obs":
            last = next(it, None)
        elif op[0] == "step":
            before[i] = last
            last = next(it, None)
            after[i] = last
            i += 1
    return before, after


def situation(rec, placed_before):
    return (rec["power"], bool(rec["in_irq"]), bool(rec["imr"] & 0x80 and rec["imr"] & rec["isr"] & 0x0F),
            bool(rec.get("pressed")), bool(rec["fifo"]), bool(rec.get("call_depth")), bool(rec["isr"]))


def diff(a, b, keys):
    out = []
    for k in keys:
        if k in a and k in b and a[k] != b[k]:
            if k == "imem":
                x, y = bytes.fromhex(a[k]), bytes.fromhex(b[k])
                out += [f"imem[{o:02X}]" for o in range(256) if x[o] != y[o]][:8]
            else:
                out.append(k)
    return out


def compare_restored(res, model, scen, n, placed, i, ref_before, ref_after, got, k):
    """got: records of the restored run: [after-load obs, step i, (obs after event)?, step i+1, ...]."""
    case = {"model": model, "scenario": {x: scen[x] for x in ("main", "body", "imr0", "timer")}, "steps": n,
            "events": {str(a): list(b) for a, b in placed.items()}, "snapshot_at": i}
    sit = situation(ref_before[i], None)
    if ref_before[i].get("source") == "KEY" and ref_before[i]["in_irq"]:
        res.monitor("snapshot_inside_key_handler")       # reach counter, REQUIRED as well
    if scen.get("main") == "swi" and ref_before[i].get("source") == "IR" and ref_before[i]["in_irq"]:
        # reach counter (a REQUIRED monitor): snapshot points inside a software-interrupt handler - when the scenario's
        # loop grows, runs that are too short never get there and the clause would silently stop being exercised
        res.monitor("snapshot_inside_software_interrupt")
    tags = {"power": ref_before[i]["power"], "in_handler": bool(ref_before[i]["in_irq"]), "keys_held": bool(ref_before[i].get("pressed")),
            "fifo_nonempty": bool(ref_before[i]["fifo"])}
    if not got or any("load_error" in g for g in got[:1]):
        res.violation({"clause": "load_fails", "model": model}, case, got[:1])
        return False
    it = iter(got)
    first = next(it, None)
    res.monitor(f"{model}_snapshot_points")
    d = diff(ref_before[i], first, ARCH)
    bk = diff(ref_before[i], first, BOOK)
    if d:
        res.violation(dict({"clause": "state_after_load_differs", "model": model, "fields": sorted(d)}, **tags), case,
                      {k2: (ref_before[i].get(k2), first.get(k2)) for k2 in d if not k2.startswith("imem")} |
                      ({"imem_bytes": imem_diff(ref_before[i], first)} if any(x.startswith("imem") for x in d) else {}))
        return False
    if bk:
        res.count(f"{model}_bookkeeping_differs_after_load:" + ",".join(sorted(bk)))
    bk_seen = set(bk)
    for j in range(i, min(n, i + k)):
        if j > i and j in placed:
            next(it, None)
        rec = next(it, None)
        ref = ref_after.get(j)
        if rec is None or ref is None:
            break
        res.monitor(f"{model}_restored_steps")
        if "step_error" in rec or "panic" in rec:
            if not ("step_error" in ref or "panic" in ref):
                res.violation(dict({"clause": "restored_run_raises", "model": model}, **tags), case, rec.get("step_error") or rec.get("panic"))
                return False
        d = diff(ref, rec, ARCH)
        if d:
            res.violation(dict({"clause": "future_differs", "model": model, "fields": sorted(d)}, **tags),
                          dict(case, diverges_at_step=j),
                          {"steps_after_load": j - i + 1} | {k2: (ref.get(k2), rec.get(k2)) for k2 in d if not k2.startswith("imem")} |
                          ({"imem_bytes": imem_diff(ref, rec)} if any(x.startswith("imem") for x in d) else {}) |
                          {"bookkeeping_already_different": sorted(bk_seen)})
            return False
        for b in diff(ref, rec, BOOK):
            if b not in bk_seen:
                bk_seen.add(b)
                res.count(f"{model}_bookkeeping_differs_later:{b}")
    res.nontrivial(model, scen["main"], scen["body"], *sit)
    return True


def imem_diff(a, b):
    x, y = bytes.fromhex(a["imem"]), bytes.fromhex(b["imem"])
    return {f"{o:02X}": (x[o], y[o]) for o in range(256) if x[o] != y[o]}


def norm_lcd(rec):
    """LCD registers in a model independent shape for the cross-load clause."""
    m = rec.get("lcd_meta")
    if isinstance(m, list):
        return [[bool(c[0]), int(c[1]), int(c[2]), int(c[3])] for c in m]
    if isinstance(m, dict):
        chips = m.get("chips") or []
        out = []
        for c in chips:
            out.append([bool(c.get("on")), int(c.get("start_line", 0)), int(c.get("page", 0)), int(c.get("y_address", c.get("y", 0)))])
        return out
    return None


def check_blob(res, model, path, rec, case):
    """registers.bin decoded with the documented layout PC3 BA2 I2 X3 Y3 U3 S3 F1 (little endian) == live registers."""
    import zipfile
    try:
        with zipfile.ZipFile(path) as z:
            blob = z.read("registers.bin")
    except Exception as e:  # noqa: BLE001
        res.violation({"clause": "snapshot_unreadable", "model": model}, case, f"{type(e).__name__}:{e}")
        return
    res.monitor("register_blob_layout")
    want = b""
    for name, w in (("pc", 3), ("BA", 2), ("I", 2), ("X", 3), ("Y", 3), ("U", 3), ("S", 3)):
        want += int(rec[name]).to_bytes(w, "little")
    # (the layout PC3 BA2 I2 X3 Y3 U3 S3 F1 is 20 bytes long; the "18" in the anchor text is a miscount)
    if len(blob) != 20 or blob[:19] != want or (blob[19] & 3) != rec["f"]:
        res.violation({"clause": "register_blob_layout", "model": model}, case, {"blob": blob.hex(), "want_prefix": want.hex(), "f": rec["f"]})


def key_codes():
    from pce500.keyboard_matrix import KEY_LOCATIONS
    return {k: (loc.column << 3) | loc.row for k, loc in KEY_LOCATIONS.items()}


def run_batch(res, runs, tier, workdir, every_cross):
    k = 30 if tier == "quick" else 45
    kc = key_codes()
    # ---------------- Python: originals (with and without saves) and restored runs -------------------------------
    py_ref = []
    for ri, (scen, n, placed) in enumerate(runs):
        res.evaluations += 1
        paths = {i: os.path.join(workdir, f"py-{ri}-{i}.snap") for i in range(n)}
        s1 = script_original(n, placed, paths)
        o1 = machine.PyMachine(scen, obs_lcd=True, obs_full=True).run(s1)
        s0 = script_original(n, placed, None)
        o0 = machine.PyMachine(scen, obs_lcd=True, obs_full=True).run(s0)
        res.monitor("save_does_not_perturb")
        case = {"model": "py", "scenario": {x: scen[x] for x in ("main", "body", "imr0", "timer")}, "steps": n,
                "events": {str(a): list(b) for a, b in placed.items()}}
        bad = next((j for j, (a, b) in enumerate(zip(o0, o1)) if diff(a, b, ARCH + BOOK)), None)
        if bad is not None:
            res.violation({"clause": "saving_perturbs_the_original", "model": "py", "fields": sorted(diff(o0[bad], o1[bad], ARCH + BOOK))},
                          case, {"record": bad})
        before, after = index_records(s1, o1)
        py_ref.append((before, after, paths))
        for i in range(n):
            m = machine.PyMachine(bare(scen), obs_lcd=True, obs_full=True)
            try:
                got = m.run(script_restored(i, n, placed, paths[i], k))
            except BaseException as e:  # noqa: BLE001
                res.violation({"clause": "load_fails", "model": "py", "error": type(e).__name__}, dict(case, snapshot_at=i), str(e)[:200])
                continue
            compare_restored(res, "py", scen, n, placed, i, before, after, got, k)
            if i % 7 == 0:
                check_blob(res, "py", paths[i], before[i], dict(case, snapshot_at=i))
    # ---------------- Rust: originals, restored runs, cross loads of the Python files -------------------------------
    jobs = []
    meta = []
    for ri, (scen, n, placed) in enumerate(runs):
        paths = {i: os.path.join(workdir, f"rs-{ri}-{i}.snap") for i in range(n)}
        jobs.append((scen, script_original(n, placed, paths))); meta.append(("orig", ri, None))
        jobs.append((scen, script_original(n, placed, None))); meta.append(("plain", ri, None))
        for i in range(n):
            jobs.append((bare(scen), script_restored(i, n, placed, paths[i], k))); meta.append(("rest", ri, i))
        for i in range(0, n, every_cross):
            jobs.append((bare(scen), [("load_into", py_ref[ri][2][i]), ("obs",)])); meta.append(("cross", ri, i))
    routs = machine.run_rust(jobs, kc, obs_lcd=True, obs_full=True)
    rs_ref = {}
    plain = {}
    for (kind, ri, i), (scen_script), (obs, err, raw) in zip(meta, jobs, routs):
        scen, n, placed = runs[ri]
        case = {"model": "rs", "scenario": {x: scen[x] for x in ("main", "body", "imr0", "timer")}, "steps": n,
                "events": {str(a): list(b) for a, b in placed.items()}}
        if kind == "orig":
            res.evaluations += 1
            before, after = index_records(scen_script[1], obs)
            rs_ref[ri] = (before, after, {j: os.path.join(workdir, f"rs-{ri}-{j}.snap") for j in range(n)}, obs)
            bad_save = [x for x in raw if isinstance(x, dict) and "save_error" in x]
            if bad_save:
                res.violation({"clause": "save_fails", "model": "rs"}, case, bad_save[:1])
        elif kind == "plain":
            res.monitor("save_does_not_perturb")
            o1 = rs_ref[ri][3]
            bad = next((j for j, (a, b) in enumerate(zip(obs, o1)) if diff(a, b, ARCH + BOOK)), None)
            if bad is not None:
                res.violation({"clause": "saving_perturbs_the_original", "model": "rs", "fields": sorted(diff(obs[bad], o1[bad], ARCH + BOOK))},
                              case, {"record": bad})
        elif kind == "rest":
            before, after, paths, _ = rs_ref[ri]
            if before.get(i) is None:
                continue
            got = list(obs)
            if raw and isinstance(raw[0], dict) and "load_error" in raw[0]:
                got = [raw[0]]
            compare_restored(res, "rs", scen, n, placed, i, before, after, got, k)
            if i % 7 == 0:
                check_blob(res, "rs", paths[i], before[i], dict(case, snapshot_at=i))
        elif kind == "cross":
            res.monitor("cross_load_py_to_rs")
            ref = py_ref[ri][0][i]
            if raw and isinstance(raw[0], dict) and "load_error" in raw[0]:
                res.violation({"clause": "cross_load_fails", "direction": "py_to_rs"}, dict(case, snapshot_at=i), raw[0])
                continue
            cross_compare(res, "py_to_rs", ref, obs[0] if obs else None, dict(case, snapshot_at=i))
    # ---------------- Python loads the Rust files -----------------------------------------------------------------
    for ri, (scen, n, placed) in enumerate(runs):
        if ri not in rs_ref:
            continue
        case = {"scenario": {x: scen[x] for x in ("main", "body", "imr0", "timer")}, "steps": n,
                "events": {str(a): list(b) for a, b in placed.items()}}
        for i in range(0, n, every_cross):
            res.monitor("cross_load_rs_to_py")
            ref = rs_ref[ri][0].get(i)
            if ref is None:
                continue
            m = machine.PyMachine(bare(scen), obs_lcd=True, obs_full=True)
            try:
                got = m.run([("load_into", rs_ref[ri][2][i]), ("obs",)])
            except BaseException as e:  # noqa: BLE001
                res.violation({"clause": "cross_load_fails", "direction": "rs_to_py", "error": type(e).__name__},
                              dict(case, snapshot_at=i), str(e)[:200])
                continue
            cross_compare(res, "rs_to_py", ref, got[0], dict(case, snapshot_at=i))
    if runs and len(res.samples) < 2:
        scen, n, placed = runs[0]
        res.sample({"scenario": {x: scen[x] for x in ("main", "body", "imr0", "timer")}, "steps": n,
                    "events": {str(a): list(b) for a, b in placed.items()}, "snapshot_points": f"0..{n - 1}", "K": k})


def cross_compare(res, direction, ref, got, case):
    if got is None:
        res.violation({"clause": "cross_load_fails", "direction": direction}, case, "no observation")
        return
    ref, got = dict(ref), dict(got)
    for rec in (ref, got):
        if rec["power"] == "off":
            rec["power"] = "halted"     # the Python model has one sleeping state for HALT and OFF
    d = diff(ref, got, CROSS)
    la, lb = norm_lcd(ref), norm_lcd(got)
    if la is not None and lb is not None and la != lb:
        d.append("lcd_meta")
    xa, xb = bytes.fromhex(ref["imem"]), bytes.fromhex(got["imem"])
    imem_bad = [o for o in range(256) if xa[o] != xb[o]]
    d += [f"imem[{o:02X}]" for o in imem_bad[:8]]
    if d:
        tags = {"power": ref["power"], "keys_held": bool(ref.get("pressed")), "fifo_nonempty": bool(ref["fifo"]),
                "in_handler": bool(ref["in_irq"])}
        if len(ref["fifo"]) >= 8:
            tags["queue_full"] = True
        res.violation(dict({"clause": "cross_loaded_state_differs", "direction": direction, "fields": sorted(d)}, **tags), case,
                      {k2: (ref.get(k2), got.get(k2)) for k2 in d if not k2.startswith("imem") and k2 != "lcd_meta"} |
                      ({"imem_bytes": {f"{o:02X}": (xa[o], xb[o]) for o in imem_bad[:16]}} if imem_bad else {}) |
                      ({"lcd_meta": (la, lb)} if "lcd_meta" in d else {}))
    else:
        res.count(f"cross_equal_{direction}")


def plan(tier, seed):
    n = 16 if tier == "quick" else 64
    specs = [{"kind": "runs", "part": i, "parts": n, "seed": seed, "tier": tier, "idx": i} for i in range(n)]
    for i in range(3):
        specs.append({"kind": "directed", "part": i, "parts": 3, "seed": seed, "tier": tier, "idx": 900 + i})
    for i in range(1 if tier == "quick" else 4):
        specs.append({"kind": "valgrind", "part": i, "parts": n, "seed": seed, "tier": tier, "idx": n + i})
    return specs


def run_valgrind(res, r, tier, workdir):
    """Save/load (zip writer/reader stand-in, snapshot.rs, raw-pointer bus of step()) under valgrind memcheck."""
    kc = key_codes()
    jobs = []
    for ri in range(2 if tier == "quick" else 6):
        scen, n, placed = make_run(r, "quick")
        pts = list(range(3, n, 7))
        paths = {i: os.path.join(workdir, f"vg-{ri}-{i}.snap") for i in pts}
        jobs.append((scen, script_original(n, placed, paths)))
        for i in pts:
            jobs.append((bare(scen), script_restored(i, n, placed, paths[i], 12)))
    outs, rep = machine.run_rust(jobs, kc, obs_lcd=True, obs_full=True, valgrind=True)
    if not rep.get("available"):
        res.count("valgrind_not_available")
        return
    res.evaluations += 1
    res.monitor("valgrind_memcheck", len(jobs))
    if rep["errors"] or rep.get("rc") != 0 or outs is None:
        res.violation({"clause": "memcheck_error_in_snapshot_or_step"}, {"jobs": len(jobs)}, rep["log"][-800:])
        return
    plain = machine.run_rust(jobs, kc, obs_lcd=True, obs_full=True)
    if [o[0] for o in outs] != [o[0] for o in plain]:
        res.violation({"clause": "result_differs_under_memcheck"}, {"jobs": len(jobs)}, "")


def run_shard(spec) -> Result:
    res = Result()
    r = rng(spec["seed"], "c16", spec["idx"])
    tier = spec["tier"]
    total = (64 if tier == "quick" else 320) // spec["parts"]
    workdir = os.path.join(os.path.dirname(os.path.dirname(os.path.dirname(os.path.abspath(__file__)))), ".work", "c16",
                           f"{os.getpid()}-{spec['idx']}")
    os.makedirs(workdir, exist_ok=True)
    try:
        if spec["kind"] == "valgrind":
            run_valgrind(res, r, tier, workdir)
            return res
        if spec["kind"] == "directed":
            # software interrupts: every round of the loop executes IR; with a status bit pending but masked (imr0 0x84:
            # only KEY enabled, main timer running) and with the ON key held while the IR handler re-enables interrupts
            # (hardware delivery nested inside the software interrupt) - every step is a snapshot point
            cfgs = [(imr0, body) for imr0 in (0x84, 0x8F, 0x88) for body in ("empty", "reenable", "clear_isr")]
            runs = []
            for j, (imr0, body) in enumerate(cfgs):
                if j % spec["parts"] != spec["part"]:
                    continue
                scen = scenario("swi", body, imr0, {"enabled": True, "mti": 3, "sti": 0})
                # (9 instructions of reset code + 24 of the loop come before the first IR: the run must be long enough to
                #  put snapshot points inside the IR handler and after its RETI - checked below through a counter)
                runs.append((scen, 52 if tier == "quick" else 90, {6: ("on", 1)} if body == "reenable" else {}))
            # keyboard interrupts: a key goes down early, the handler reads KIL (which empties the queue) and acknowledges -
            # or does neither -, every step is a snapshot point, several of them inside the KEY handler
            kcfgs = [(main, body, imr0) for main in ("nop", "halt") for body in ("kil", "kil_noack", "empty")
                     for imr0 in (0x84, 0x8F)]
            for j, (main, body, imr0) in enumerate(kcfgs):
                if j % spec["parts"] != spec["part"]:
                    continue
                scen = scenario(main, body, imr0, {"enabled": True, "mti": 2, "sti": 0})
                runs.append((scen, 64 if tier == "quick" else 110, {5: ("press", "KEY_Q"), 40: ("release", "KEY_Q")}))
        else:
            runs = [make_run(r, tier) for _ in range(total)]
        for lo in range(0, len(runs), 4):
            run_batch(res, runs[lo:lo + 4], tier, workdir, every_cross=3)
            for f in os.listdir(workdir):
                os.unlink(os.path.join(workdir, f))
    finally:
        shutil.rmtree(workdir, ignore_errors=True)
    return res


def replay(case):
    return []
