"""C14 - keyboard: KIL shows exactly held keys on strobed columns; event order; FIFO; KEYI."""
from __future__ import annotations

from ..core import Result, rng

PROPERTY = "C14"
LEVEL = "exploration"
NEEDS = ("rust", "deps")
EXHAUSTIVE = {"quick": False, "thorough": False}
REQUIRED_MONITORS = ["machine_keyi_rs_steps", "py_kil_clauses", "rs_kil_clauses", "py_event_automaton", "rs_event_automaton", "fifo_suffix",
                     "keyi_edge", "enqueue_contract", "fifo_stream_tail", "fifo_burst_overflows_in_one_op"]
RULE = ("histories over {press k, release k, write KOL v, write KOH v, scan tick, read KIL, inject event, consume, (Rust) "
        "mirror FIFO to ISR with keyboard IRQs on/off} with adversarial keys (same row on different columns, same column, KOH "
        "columns 8-10, chatter, pressing an already pressed key, >8 events between consumes), both column polarities, "
        "thresholds press/release in {1,2,6}, repeat delay in {1,3,24}, interval in {1,2,6}; ALL histories up to length 4 "
        "(thorough: 5) over a 3-key/2-strobe alphabet enumerated completely. A clause monitor driven by the ground truth "
        "of issued operations checks after every operation, per model: KIL soundness (row bit => held-or-recently-released "
        "key on a strobed column), KIL completeness (held >= debounce ticks => shown), per-key event automaton "
        "(press repeat* release)* with repeat cadence and bounded release, FIFO <= capacity and only-oldest-dropped, KEYI "
        "0->1 only with events pending and keyboard IRQs enabled. icontract invariant on the real _enqueue_event. "
        "distinct_nontrivial = distinct (settings, history) runs in which at least one event was produced.")
ASSUMPTIONS = ["each model is judged at its own documented consumption points (Rust KIL read consumes the FIFO; Python ring holds 7)",
               "a KIL read performs a scan tick first (both models)",
               "Python KEYI is raised by PCE500Emulator, not by the matrix: that clause is monitored at machine level in C12"]

_contract = {"installed": False, "evals": 0}


def install_contract():
    if _contract["installed"]:
        return
    import icontract
    from pce500 import keyboard_matrix as km

    class EnqueueBroken(Exception):
        pass

    def snap(self):
        return (list(self.fifo_snapshot()),)

    def post(self, event, OLD):
        _contract["evals"] += 1
        now = self.fifo_snapshot()
        if not (0 <= self._head < km.FIFO_SIZE and 0 <= self._tail < km.FIFO_SIZE):
            return False
        if len(now) > km.FIFO_SIZE:
            return False
        before = OLD.before[0]
        if not now or now[-1] != event.to_byte():
            return False
        kept = now[:-1]
        return kept == before[len(before) - len(kept):] if kept else True

    km.KeyboardMatrix._enqueue_event = icontract.snapshot(snap, name="before")(
        icontract.ensure(post, error=lambda self, event: EnqueueBroken("queue does not keep the newest entries"))(
            km.KeyboardMatrix._enqueue_event))
    _contract["installed"] = True
    _contract["exc"] = EnqueueBroken


def key_table():
    from pce500.keyboard_matrix import KEY_LOCATIONS
    return {name: (loc.column, loc.row, (loc.column << 3) | loc.row) for name, loc in KEY_LOCATIONS.items()}


class Truth:
    """Ground truth kept by the driver (it issues every operation)."""

    def __init__(self, cfg, keys):
        self.cfg = cfg
        self.keys = keys           # name -> (col,row,code)
        self.kol = 0 if cfg["active_high"] else 0xFF
        self.koh = 0 if cfg["active_high"] else 0x0F
        if cfg.get("via_setter"):
            self.kol = self.koh = 0      # Rust power-on strobe registers; no KOL/KOH write precedes the history
        self.held = {}
        self.since_release = {}    # scan ticks since release (key was held before)
        self.consec = {}           # consecutive scan ticks held & strobed
        self.fsm = {}              # 'up' | 'down'
        self.strobed_since_evt = {}
        self.nrepeats = {}
        self.unheld_ticks_while_down = {}
        self.cadence_unknown = set()
        self.released_since_press_evt = set()
        self.gap = {}              # consecutive scan ticks on which the key was NOT (held and strobed)

    def strobed_cols(self):
        cols = set()
        for c in range(8):
            b = (self.kol >> c) & 1
            if (b == 1) == self.cfg["active_high"]:
                cols.add(c)
        for c in range(4):
            b = (self.koh >> c) & 1
            if (b == 1) == self.cfg["active_high"]:
                cols.add(c + 8)
        return cols

    def tick(self):
        cols = self.strobed_cols()
        for k, (c, r, code) in self.keys.items():
            if self.held.get(k) and c in cols:
                self.consec[k] = self.consec.get(k, 0) + 1
                if self.fsm.get(k) == "down":
                    self.strobed_since_evt[k] = self.strobed_since_evt.get(k, 0) + 1
                self.unheld_ticks_while_down[k] = 0
                self.gap[k] = 0
            else:
                self.gap[k] = self.gap.get(k, 0) + 1
                self.consec[k] = 0
                if self.fsm.get(k) == "down":
                    self.unheld_ticks_while_down[k] = self.unheld_ticks_while_down.get(k, 0) + 1
            if not self.held.get(k) and k in self.since_release:
                self.since_release[k] += 1


def gen_history(r, keys, n, cfg, redundant=False, norelease=False):
    """Press only keys that are up and release only keys that are down unless `redundant` (pressing a held key /
    releasing an idle key are legal API uses with model-specific quirks; they are explored in flagged histories)."""
    names = list(keys)
    init_kol = 0 if cfg["active_high"] else 0xFF
    init_koh = 0 if cfg["active_high"] else 0x0F
    ops = [("kol", init_kol), ("koh", init_koh)]   # both models start from the same explicit strobe state
    if cfg.get("via_setter"):
        ops = []       # Rust only: polarity set through set_columns_active_high(), strobe registers left at power-on 0
    held = set()
    for _ in range(n):
        roll = r.random()
        if roll < 0.18:
            pool = names if redundant else [k for k in names if k not in held]
            if pool:
                k = r.choice(pool)
                held.add(k)
                ops.append(("press", k))
        elif roll < 0.30:
            pool = names if redundant else sorted(held)
            if norelease:
                # variant without physical releases: releases happen only by un-strobing (keeps Rust histories long,
                # see known finding c14-rs-no-release-event)
                ops.append(("kol", r.choice((0, 0xFF))))
                continue
            if pool:
                k = r.choice(pool)
                held.discard(k)
                ops.append(("release", k))
        elif roll < 0.40:
            ops.append(("kol", r.choice((0, 0xFF, 1 << r.randrange(8), r.randrange(256)))))
        elif roll < 0.46:
            ops.append(("koh", r.choice((0, 0x07, 1 << r.randrange(3), r.randrange(16)))))
        elif roll < 0.80:
            ops.append(("tick", True))
        elif roll < 0.90:
            ops.append(("kil",))
        elif roll < 0.93:
            ops.append(("consume",))
        elif roll < 0.95:
            rel = r.random() < 0.4
            pool = names if redundant else ([k for k in sorted(held)] if rel else [k for k in names if k not in held])
            if pool:
                k = r.choice(pool)
                (held.discard if rel else held.add)(k)
                ops.append(("inject", k, rel))
        elif roll < 0.98:
            ops.append(("to_mem", r.random() < 0.7))
        else:
            ops.append(("clear_isr",))
    return ops


def gen_burst(r, table, cfg):
    """Many keys debounced on the SAME scan tick: more events in one tick than the queue holds (first a small group A,
    then a group B of 9-14 keys, then - sometimes - everything released at once)."""
    names = sorted(table)
    r.shuffle(names)
    na, nb = r.randrange(0, 6), r.randrange(9, 15)
    a_keys, b_keys = names[:na], names[na:na + nb]
    keys = {n: table[n] for n in a_keys + b_keys}
    allk, allh = (0xFF, 0x0F) if cfg["active_high"] else (0x00, 0x00)
    ops = [("kol", allk), ("koh", allh)]
    ops += [("press", k) for k in a_keys] + [("tick", True)] * (cfg["press"] + r.randrange(0, 2))
    if r.random() < 0.3:
        ops.append(("consume",))
    ops += [("press", k) for k in b_keys] + [("tick", True)] * (cfg["press"] + r.randrange(0, 3))
    if r.random() < 0.6:
        rel = list(b_keys) + list(a_keys)
        r.shuffle(rel)
        ops += [("release", k) for k in rel] + [("tick", True)] * (cfg["release"] + 1)
    return ops, keys


def check_common(res, model, cfg, truth, op, obs_kil, events, fifo, prev_fifo, case, i):
    """Clauses shared by both models. events: list of (code, release, repeat|None) observed for this op."""
    keys = truth.keys
    by_code = {v[2]: k for k, v in keys.items()}
    viol = None
    # ---- KIL clauses ------------------------------------------------------------------
    if obs_kil is not None:
        res.monitor(f"{model}_kil_clauses")
        cols = truth.strobed_cols()
        for row in range(8):
            bit = (obs_kil >> row) & 1
            cands = [k for k, (c, r_, _) in keys.items() if r_ == row and c in cols]
            justified = any(truth.held.get(k) or (k in truth.since_release and
                                                  truth.since_release[k] < cfg["release"]) for k in cands)
            must = any(truth.held.get(k) and truth.consec.get(k, 0) >= cfg["press"] for k in cands)
            if bit and not justified:
                return {"clause": "kil_shows_unheld_row", "model": model}, {"step": i, "kil": obs_kil, "row": row}
            if must and not bit:
                return {"clause": "kil_hides_debounced_key", "model": model}, {"step": i, "kil": obs_kil, "row": row}
    # ---- event automaton -----------------------------------------------------------------
    for (code, release, repeat) in events:
        res.monitor(f"{model}_event_automaton")
        k = by_code.get(code)
        if k is None:
            continue
        st = truth.fsm.get(k, "up")
        if release:
            if st != "down":
                return {"clause": "release_event_without_press", "model": model}, {"step": i, "key": k}
            # a release event is due only after `release` CONSECUTIVE scan ticks without the key held on a strobed column
            # (short strobe gaps must not add up)
            if op[0] != "inject" and not cfg.get("redundant") and truth.gap.get(k, 0) < cfg["release"]:
                return ({"clause": "release_event_premature", "model": model},
                        {"step": i, "key": k, "consecutive_gap_ticks": truth.gap.get(k, 0), "release_threshold": cfg["release"]})
            truth.fsm[k] = "up"
            truth.unheld_ticks_while_down[k] = 0
        else:
            is_repeat = repeat if repeat is not None else (st == "down" and k not in truth.released_since_press_evt)
            truth.released_since_press_evt.discard(k)
            if is_repeat and cfg.get("no_repeat") and op[0] != "inject":
                return {"clause": "repeat_event_with_repeat_disabled", "model": model}, {"step": i, "key": k}
            if is_repeat:
                if st != "down":
                    return {"clause": "repeat_event_without_press", "model": model}, {"step": i, "key": k}
                want = cfg["delay"] if truth.nrepeats.get(k, 0) == 0 else cfg["interval"]
                got = truth.strobed_since_evt.get(k, 0)
                if k in truth.cadence_unknown:
                    truth.cadence_unknown.discard(k)
                elif got != want and op[0] != "inject":
                    return ({"clause": "repeat_off_cadence", "model": model},
                            {"step": i, "key": k, "ticks_since_previous": got, "want": want, "nth": truth.nrepeats.get(k, 0)})
                truth.nrepeats[k] = truth.nrepeats.get(k, 0) + 1
                truth.strobed_since_evt[k] = 0
            else:
                if st == "down":
                    return {"clause": "second_press_event_without_release", "model": model}, {"step": i, "key": k}
                truth.fsm[k] = "down"
                truth.nrepeats[k] = 0
                truth.strobed_since_evt[k] = 0
                truth.unheld_ticks_while_down[k] = 0
    # ---- bounded release: once a 'down' key has been un-held/un-strobed for `release` scan ticks, its release event is due
    for k, n_ in truth.unheld_ticks_while_down.items():
        if truth.fsm.get(k) == "down" and n_ > cfg["release"]:
            return ({"clause": "missing_release_event", "model": model},
                    {"step": i, "key": k, "unheld_ticks": n_, "release_threshold": cfg["release"]})
    # ---- FIFO: bounded, only oldest dropped --------------------------------------------
    res.monitor("fifo_suffix")
    if len(fifo) > 8:
        return {"clause": "fifo_exceeds_capacity", "model": model}, {"step": i, "len": len(fifo)}
    return viol, None


def run_py(res, cfg, ops, keys):
    from pce500.keyboard_matrix import KeyboardMatrix
    from pce500.keyboard_handler import PCE500KeyboardHandler
    install_contract()
    h = PCE500KeyboardHandler(None, columns_active_high=cfg["active_high"])
    m = KeyboardMatrix(columns_active_high=cfg["active_high"], press_threshold=cfg["press"],
                       release_threshold=cfg["release"], repeat_delay=cfg["delay"], repeat_interval=cfg["interval"])
    h._matrix = m
    captured = []
    orig_scan = m.scan_tick

    def scan_capture():
        ev = orig_scan()
        captured.extend(ev)
        return ev
    m.scan_tick = scan_capture      # observe the events of scans performed inside KIL reads as well
    truth = Truth(cfg, keys)
    case = {"model": "py", "cfg": cfg, "ops": [list(o) for o in ops[:300]]}
    prev_fifo = []
    produced = False
    for i, op in enumerate(ops):
        events = []
        kil = None
        try:
            if op[0] == "press":
                ok = m.press_key(op[1])
                truth.cadence_unknown.add(op[1])
                truth.unheld_ticks_while_down[op[1]] = 0
                if ok:
                    truth.held[op[1]] = True
                    truth.consec[op[1]] = 0
                    truth.since_release.pop(op[1], None)
            elif op[0] == "release":
                truth.cadence_unknown.add(op[1])
                if truth.held.get(op[1]) or op[1] in truth.since_release:
                    truth.since_release[op[1]] = 0      # release_key() restarts the linger count (also when repeated)
                    truth.unheld_ticks_while_down[op[1]] = 0
                truth.held[op[1]] = False
                m.release_key(op[1])
            elif op[0] == "kol":
                h.handle_register_write(0xF0, op[1])
                truth.kol = op[1] & 0xFF
            elif op[0] == "koh":
                h.handle_register_write(0xF1, op[1])
                truth.koh = op[1] & 0x0F
            elif op[0] == "tick":
                truth.tick()
                del captured[:]
                m.scan_tick()
                events = [(e.code, e.release, e.repeat) for e in captured]
            elif op[0] == "kil":
                truth.tick()
                del captured[:]
                kil = h.handle_register_read(0xF2)
                events = [(e.code, e.release, e.repeat) for e in captured]
            elif op[0] == "consume":
                m.consume_pending_events()
                prev_fifo = []
            elif op[0] == "inject":
                name, rel = op[1], op[2]
                m.inject_event(name, release=rel)
                code = keys[name][2]
                if rel:
                    truth.held[name] = False
                    truth.since_release.pop(name, None)
                    truth.fsm[name] = "down" if truth.fsm.get(name) == "down" else "down"   # injected release is always legal
                else:
                    truth.held[name] = True
                    truth.consec[name] = cfg["press"]
                    truth.fsm[name] = "up"
                events = [(code, rel, False)]
            else:
                continue
        except _contract["exc"] as e:
            res.violation({"clause": "enqueue_contract", "model": "py"}, case, {"step": i, "err": str(e)})
            return False
        fifo = list(m.fifo_snapshot())
        if events:
            produced = True
        # only-oldest-dropped: the queue must be the tail of (previous queue + this operation's events in the order they
        # were generated) - also when one operation generates more events than the queue holds - and nothing is dropped
        # while there is room (the Python ring holds FIFO_SIZE-1 entries)
        n_new = len(events)
        stream = prev_fifo + [(c & 0x7F) | (0x80 if rel_ else 0) for (c, rel_, _rp) in events]
        if op[0] != "consume":
            res.monitor("fifo_stream_tail")
            if n_new > 7:
                res.monitor("fifo_burst_overflows_in_one_op")
            if fifo != stream[len(stream) - len(fifo):] or len(fifo) < min(len(stream), 7):
                res.violation({"clause": "fifo_drops_other_than_oldest", "model": "py"}, case,
                              {"step": i, "before": prev_fifo, "after": fifo, "new": n_new, "stream": stream[-20:]})
                return False
        sig, det = check_common(res, "py", cfg, truth, op, kil, events, fifo, prev_fifo, case, i)
        if sig:
            sig["op"] = op[0]
            sig["redundant"] = bool(cfg.get("redundant"))
            res.violation(sig, case, det)
            return False
        prev_fifo = fifo
    res.monitors["enqueue_contract"] = _contract["evals"]
    return produced


def _new_tail_events(before, after):
    """Events appended between two FIFO snapshots (assuming only-oldest-dropped)."""
    for n in range(0, len(after) + 1):
        kept = after[:len(after) - n]
        if kept == before[len(before) - len(kept):]:
            return [(b & 0x7F, bool(b & 0x80), None) for b in after[len(after) - n:]]
    return [(b & 0x7F, bool(b & 0x80), None) for b in after]


def run_rs_batch(res, jobs, keys):
    from .. import rust
    code_of = {k: v[2] for k, v in keys.items()}
    payload = []
    for i, (cfg, ops) in enumerate(jobs):
        rops = []
        for op in ops:
            if op[0] in ("press", "release"):
                rops.append([op[0], code_of[op[1]]])
            elif op[0] == "inject":
                rops.append(["inject", code_of[op[1]], op[2], True])
            elif op[0] == "tick":
                rops.append(["tick", True])
            else:
                rops.append(list(op))
        payload.append({"id": i, "cfg": cfg, "ops": rops})
    rr = rust.run("kbd", payload)
    outs = []
    for (cfg, ops), rout in zip(jobs, rr):
        truth = Truth(cfg, keys)
        case = {"model": "rs", "cfg": cfg, "ops": [list(o) for o in ops[:300]]}
        prev_fifo = []
        prev_isr = 0
        produced = False
        ok = True
        for i, (op, o) in enumerate(zip(ops, rout["out"])):
            kil = None
            fifo = o["fifo"]
            nev = o.get("ev", 0) or 0
            events = []
            if op[0] == "press":
                # Rust press_matrix_code restarts the debounce even when already held (documented model difference)
                truth.cadence_unknown.add(op[1])
                truth.unheld_ticks_while_down[op[1]] = 0
                truth.held[op[1]] = True
                truth.consec[op[1]] = 0
                truth.since_release.pop(op[1], None)
            elif op[0] == "release":
                truth.cadence_unknown.add(op[1])
                truth.released_since_press_evt.add(op[1])
                truth.unheld_ticks_while_down[op[1]] = 0
                truth.held[op[1]] = False
                truth.since_release.pop(op[1], None)   # Rust clears 'debounced' at once: no lingering row bit allowed
            elif op[0] == "kol":
                truth.kol = op[1] & 0xFF
            elif op[0] == "koh":
                truth.koh = op[1] & 0x0F
            elif op[0] == "tick":
                truth.tick()
                events = [(b & 0x7F, bool(b & 0x80), None) for b in fifo[max(0, len(fifo) - nev):]] if nev else []
            elif op[0] == "kil":
                truth.tick()
                kil = o.get("rd")
                # the read consumes the queue: events of the inner scan are not observable; resync the automaton
                for k in list(truth.fsm):
                    pass
            elif op[0] == "inject":
                name, rel = op[1], op[2]
                if rel:
                    truth.held[name] = False
                    truth.since_release.pop(name, None)
                    truth.fsm[name] = "down"
                else:
                    truth.held[name] = True
                    truth.consec[name] = cfg["press"]
                    truth.fsm[name] = "up"
                events = [(code_of[name], rel, False)]
            if events:
                produced = True
            if op[0] in ("tick", "inject"):
                n_new = nev if op[0] == "tick" else len(events)
                kept = fifo[:len(fifo) - n_new] if n_new <= len(fifo) else []
                if n_new > 8:
                    res.monitor("fifo_burst_overflows_in_one_op")
                # nothing but the oldest entries go, and nothing goes while there is room (capacity 8)
                if kept != prev_fifo[len(prev_fifo) - len(kept):] or len(fifo) != min(len(prev_fifo) + n_new, 8):
                    res.violation({"clause": "fifo_drops_other_than_oldest", "model": "rs"}, case,
                                  {"step": i, "before": prev_fifo, "after": fifo, "new": n_new})
                    ok = False
                    break
            overflowed = op[0] == "tick" and nev > len(fifo)
            if overflowed:
                events = []     # some of this tick's events were pushed out again within the tick: not observable from the queue
            if op[0] == "kil" or overflowed:
                # automaton cannot see events consumed by the read: treat every key as re-synchronised from 'deb'
                deb = set(o.get("deb", []))
                for k, (c, r_, code) in keys.items():
                    truth.fsm[k] = "down" if code in deb else "up"
                    if code in deb:
                        truth.cadence_unknown.add(k)   # cadence unknown after a consumed scan
            # cadence is not judged right after a resync
            ev2 = list(events)
            # Rust press on an already-debounced key restarts debounce: fsm follows 'deb' for that key
            sig, det = check_common(res, "rs", cfg, truth, op, kil, ev2, fifo, prev_fifo, case, i)
            if sig:
                sig["op"] = op[0]
                sig["redundant"] = bool(cfg.get("redundant"))
                res.violation(sig, case, det)
                ok = False
                break
            # KEYI edge
            res.monitor("keyi_edge")
            isr = o["isr"]
            if (isr & 4) and not (prev_isr & 4):
                legal = (op[0] == "to_mem" and op[1] and len(prev_fifo) > 0) or (op[0] == "inject")
                if not legal:
                    res.violation({"clause": "keyi_raised_without_pending_or_enable", "model": "rs", "op": op[0]}, case,
                                  {"step": i, "fifo_before": prev_fifo, "op": list(op)})
                    ok = False
                    break
            prev_isr = isr
            prev_fifo = fifo
        outs.append(ok and produced)
    return outs


def _idle_release(ops):
    held = set()
    for op in ops:
        if op[0] == "press":
            held.add(op[1])
        elif op[0] == "release":
            if op[1] not in held:
                return True
            held.discard(op[1])
    return False


def _had_repress(ops):
    held = set()
    for op in ops:
        if op[0] == "press":
            if op[1] in held:
                return True
            held.add(op[1])
        elif op[0] == "release":
            held.discard(op[1])
    return False


def settings(r):
    return {"press": r.choice((1, 2, 6)), "release": r.choice((1, 2, 6)), "delay": r.choice((1, 3, 24)),
            "interval": r.choice((1, 2, 6)), "active_high": r.random() < 0.7}


def adversarial_keys(r, table):
    """3-6 keys: same row different columns, same column different rows, a KOH column."""
    names = sorted(table)
    base = r.choice(names)
    c0, r0, _ = table[base]
    same_row = [n for n in names if table[n][1] == r0 and n != base]
    same_col = [n for n in names if table[n][0] == c0 and n != base]
    high = [n for n in names if table[n][0] >= 8]
    pick = {base}
    for pool in (same_row, same_col, high, names):
        if pool:
            pick.add(r.choice(pool))
    return {n: table[n] for n in pick}


def run_machine_keyi(spec) -> Result:
    """ROM programs on PCE500Emulator and CoreRuntime (C12's drivers and trace checker) with keyboard interrupts switched
    on or off, keys going down/up, KIL polled or never read, ISR/IMR rewritten by the host; only the statement's clause
    "the key interrupt is raised only when events are pending and keyboard interrupts are enabled" is taken from the
    checker here (everything else it says belongs to C12)."""
    from . import c12
    res = Result()
    r = rng(spec["seed"], "c14machine", spec["idx"])
    n = (240 if spec["tier"] == "quick" else 4800) // spec["parts"]
    keyev = [e for e in c12.EVENTS if e[0] in ("press", "release")]
    jobs = []
    for _ in range(n):
        main = r.choice(list(c12.MAINS))
        # (no handler body reads KIL here: a KIL read and a keyboard scan inside ONE step cannot be ordered from step-boundary
        #  observations - tried and withdrawn, see DESIGN 6.3)
        body = r.choice(("empty", "clear_isr", "zero", "reenable", "touch", "clear_then_reenable"))
        imr0 = r.choice((0x00, 0x04, 0x80, 0x84, 0x85, 0x8F, 0x8B, 0x81))
        timer = {"enabled": True, "mti": r.choice((1, 2, 3, 5)), "sti": r.choice((0, 3, 8))}
        scen = c12.scenario(main, body, imr0, timer, kb_irq=r.random() < 0.5)
        nsteps = r.randrange(60, 140)
        placed = {}
        for _e in range(r.randrange(2, 9)):
            placed[r.randrange(6, nsteps)] = r.choice(keyev) if r.random() < 0.7 else r.choice(c12.EVENTS)
        if r.random() < 0.4:
            # the host re-arms the timers in the middle of the run (possibly inside the key handler, after it has emptied
            # the queue): nothing of the old run may make the key interrupt come back with an empty queue
            for _e in range(r.randrange(1, 4)):
                placed[r.randrange(10, nsteps)] = ("treset",)
        jobs.append((scen, c12.build_script(nsteps, placed)))
    tmp = Result()
    for lo in range(0, len(jobs), 60):
        c12.run_jobs(tmp, jobs[lo:lo + 60])
    res.evaluations += len(jobs) * 2
    res.monitor("machine_keyi_py_hook", tmp.monitors.get("py_keyi_hook", 0))
    res.monitor("machine_keyi_rs_steps", tmp.monitors.get("rs_trace_checker", 0))
    for j, (scen, _s) in enumerate(jobs):
        res.nontrivial("machine", scen["main"], scen["body"], scen["imr0"], scen["timer"]["kb_irq"], j)
    for v in tmp.violations:
        if v["sig"].get("clause") == "keyi_raised_without_pending_or_enable":
            res.violation({"clause": "keyi_raised_without_pending_or_enable", "level": "machine", "model": v["sig"].get("model")},
                          v["case"], v["detail"])
    return res


def plan(tier, seed):
    specs = []
    idx = 0
    parts = 8 if tier == "quick" else 32
    for i in range(parts):
        specs.append({"kind": "random", "part": i, "parts": parts, "seed": seed, "tier": tier, "idx": idx}); idx += 1
    nen = 4 if tier == "quick" else 16
    for i in range(nen):
        specs.append({"kind": "enum", "part": i, "parts": nen, "seed": seed, "tier": tier, "idx": idx}); idx += 1
    # the key-interrupt clause on the two complete machines (the Rust decision "raise KEYI?" is taken in
    # TimerContext::tick_timers_with_keyboard with CoreRuntime's closure, the Python one in PCE500Emulator._tick_timers:
    # neither is reachable through the keyboard classes alone)
    nm = 4 if tier == "quick" else 16
    for i in range(nm):
        specs.append({"kind": "machine", "part": i, "parts": nm, "seed": seed, "tier": tier, "idx": 7000 + i})
    return specs


def run_shard(spec) -> Result:
    res = Result()
    r = rng(spec["seed"], "c14", spec["idx"])
    if spec["kind"] == "machine":
        return run_machine_keyi(spec)
    table = key_table()
    jobs = []
    if spec["kind"] == "random":
        n = (2000 if spec["tier"] == "quick" else 60000) // spec["parts"]
        for _ in range(n):
            cfg = settings(r)
            keys = adversarial_keys(r, table)
            red = r.random() < 0.1
            ops = gen_history(r, keys, r.randrange(50, 120 if spec["tier"] == "quick" else 300), cfg, redundant=red,
                              norelease=(not red and r.random() < 0.45))
            jobs.append((dict(cfg, redundant=red), ops, keys))
            if r.random() < 0.2:
                # Rust only: key repeat switched off (set_repeat_enabled(false)); strobes come and go, keys stay down
                cfg3 = dict(cfg, no_repeat=True)
                ops3 = gen_history(r, keys, r.randrange(40, 110), cfg3, redundant=False, norelease=r.random() < 0.7)
                jobs.append((dict(cfg3, redundant=False, rust_only=True), ops3, keys))
            if r.random() < 0.25:
                # Rust only: the initial strobe state arrives inside a snapshot loaded into a fresh matrix (other default
                # polarity), and no KOL/KOH write follows before the first keys go down
                cfg4 = dict(cfg, strobe_via_snapshot=True)
                ops4 = gen_history(r, keys, r.randrange(30, 90), cfg4, redundant=False, norelease=r.random() < 0.45)
                jobs.append((dict(cfg4, redundant=False, rust_only=True), ops4, keys))
            if r.random() < 0.25:
                cfg2 = dict(cfg, via_setter=True)
                ops2 = gen_history(r, keys, r.randrange(30, 90), cfg2, redundant=False, norelease=r.random() < 0.45)
                jobs.append((dict(cfg2, redundant=False, rust_only=True), ops2, keys))
        for _ in range(max(4, n // 12)):
            cfg = settings(r)
            ops, keys = gen_burst(r, table, cfg)
            jobs.append((dict(cfg, redundant=False, burst=True), ops, keys))
    else:
        import itertools
        names = ["KEY_Q", "KEY_W", "KEY_A"]   # Q:(0,1) W:(1,0) A:(0,3): two share a column
        keys = {n: table[n] for n in names}
        alpha = [("press", "KEY_Q"), ("release", "KEY_Q"), ("press", "KEY_W"), ("release", "KEY_W"), ("press", "KEY_A"),
                 ("kol", 0x01), ("kol", 0x03), ("kol", 0x00), ("tick", True), ("kil",)]
        depth = 4 if spec["tier"] == "quick" else 5
        cfg = {"press": 1, "release": 1, "delay": 1, "interval": 1, "active_high": True}
        for k, combo in enumerate(itertools.product(range(len(alpha)), repeat=depth)):
            if k % spec["parts"] != spec["part"]:
                continue
            ops = [("kol", 0), ("koh", 0)] + [alpha[i] for i in combo] + [("tick", True), ("tick", True), ("kil",)]
            jobs.append((dict(cfg, redundant=_had_repress(ops) or _idle_release(ops)), ops, keys))
        res.count("enumerated_histories", len(jobs))
    # Python
    for cfg, ops, keys in jobs:
        if cfg.get("rust_only"):
            continue
        res.evaluations += 1
        ok = run_py(res, cfg, ops, keys)
        if ok:
            res.nontrivial("py", repr(cfg), tuple(ops[:30]), len(ops))
    # Rust (batched; histories share the key alphabet per job)
    for lo in range(0, len(jobs), 300):
        chunk = jobs[lo:lo + 300]
        # one harness call per distinct key set is not needed: codes are passed per op
        outs = []
        # keys differ per job: run each with its own table
        from collections import defaultdict
        groups = defaultdict(list)
        for j, (cfg, ops, keys) in enumerate(chunk):
            groups[tuple(sorted(keys))].append((j, cfg, ops, keys))
        for _, items in groups.items():
            keys = items[0][3]
            oks = run_rs_batch(res, [(cfg, ops) for _, cfg, ops, _ in items], keys)
            for (j, cfg, ops, _), ok in zip(items, oks):
                res.evaluations += 1
                if ok:
                    res.nontrivial("rs", repr(cfg), tuple(ops[:30]), len(ops))
    if jobs:
        res.sample({"cfg": jobs[0][0], "keys": sorted(jobs[0][2]), "ops": [list(o) for o in jobs[0][1][:10]]})
    return res


def replay(case):
    return []
