"""Locates the repo, installs offline deps on demand, builds the Rust harness under a lock."""
from __future__ import annotations

import fcntl
import os
import subprocess
import sys
from pathlib import Path

ROOT = Path(__file__).resolve().parent.parent
REPO = Path(os.environ.get("VERIF_REPO", "/repo"))
DEPS = ROOT / ".deps"
HARNESS_DIR = ROOT / "rust" / "harness"
VRT = HARNESS_DIR / "target" / "debug" / "vrt"
WHEELS = "/opt/veriftools/wheels"


def ensure_deps() -> None:
    if (DEPS / "icontract").exists():
        return
    DEPS.mkdir(exist_ok=True)
    with open(ROOT / ".deps.lock", "w") as lk:
        fcntl.flock(lk, fcntl.LOCK_EX)
        if (DEPS / "icontract").exists():
            return
        subprocess.run(
            ["/venv/bin/pip", "install", "--quiet", "--no-index", "--find-links", WHEELS,
             "--target", str(DEPS), "icontract"],
            check=True, stdout=subprocess.DEVNULL,
        )


def ensure_rust() -> Path:
    """cargo build (mtime based: edits under /repo/sc62015/core/src are picked up)."""
    with open(ROOT / ".rust.lock", "w") as lk:
        fcntl.flock(lk, fcntl.LOCK_EX)
        env = dict(os.environ)
        env["CARGO_NET_OFFLINE"] = "true"
        p = subprocess.run(
            ["cargo", "build", "--offline", "--quiet"], cwd=str(HARNESS_DIR), env=env,
            stdout=subprocess.PIPE, stderr=subprocess.STDOUT, text=True,
        )
        if p.returncode != 0 or not VRT.exists():
            sys.stdout.write(p.stdout[-4000:])
            print("INCONCLUSIVE: rust harness build failed")
            sys.exit(2)
    return VRT


def ensure(needs) -> None:
    if "deps" in needs:
        ensure_deps()
    if "rust" in needs:
        ensure_rust()
