"""Locates the repo, installs offline deps on demand, builds the Rust harness under a lock."""
from __future__ import annotations

import fcntl
import os
import subprocess
import sys
from pathlib import Path

ROOT = Path(__file__).resolve().parent.parent
REPO = Path(os.environ.get("VERIF_REPO", "/repo"))
DEPS = ROOT / ".deps"


def _harness_dir() -> Path:
    """Default: /verif/rust/harness (shim manifest compiles /repo's sources). For my own mutation runs against a scratch
    worktree (VERIF_REPO=<dir>), an alternate build tree under .work/rust-alt/<tag>/ whose shim points at THAT worktree,
    so that Rust changes can be judged without touching /repo (and several of them in parallel)."""
    base = ROOT / "rust" / "harness"
    if str(REPO) == "/repo":
        return base
    import hashlib
    import shutil
    tag = hashlib.sha1(str(REPO).encode()).hexdigest()[:12]
    d = ROOT / ".work" / "rust-alt" / tag
    if not (d / "harness" / "Cargo.toml").exists():
        (d / "core-shim").mkdir(parents=True, exist_ok=True)
        (d / "harness" / ".cargo").mkdir(parents=True, exist_ok=True)
        shim = (ROOT / "rust" / "core-shim" / "Cargo.toml").read_text()
        (d / "core-shim" / "Cargo.toml").write_text(shim.replace("/repo/sc62015/core/src/lib.rs",
                                                                 str(REPO / "sc62015/core/src/lib.rs")))
        for name in ("vendor", "zipshim"):
            if not (d / name).exists():
                os.symlink(ROOT / "rust" / name, d / name)
        if not (d / "harness" / "src").exists():
            os.symlink(base / "src", d / "harness" / "src")
        shutil.copy(base / ".cargo" / "config.toml", d / "harness" / ".cargo" / "config.toml")
        shutil.copy(base / "Cargo.toml", d / "harness" / "Cargo.toml")
        if (base / "Cargo.lock").exists():
            shutil.copy(base / "Cargo.lock", d / "harness" / "Cargo.lock")
    return d / "harness"


HARNESS_DIR = _harness_dir()
VRT = HARNESS_DIR / "target" / "debug" / "vrt"
WHEELS = "/opt/veriftools/wheels"


def ensure_deps() -> None:
    if (DEPS / "icontract").exists():
        return
    DEPS.mkdir(exist_ok=True)
    with open(ROOT / ".deps.lock", "w") as lk:
        fcntl.flock(lk, fcntl.LOCK_EX)
        if (DEPS / "icontract").exists():
            return
        subprocess.run(
            ["/venv/bin/pip", "install", "--quiet", "--no-index", "--find-links", WHEELS,
             "--target", str(DEPS), "icontract"],
            check=True, stdout=subprocess.DEVNULL,
        )


def ensure_rust() -> Path:
    """cargo build (mtime based: edits under /repo/sc62015/core/src are picked up)."""
    with open(HARNESS_DIR.parent / ".rust.lock" if str(REPO) != "/repo" else ROOT / ".rust.lock", "w") as lk:
        fcntl.flock(lk, fcntl.LOCK_EX)
        env = dict(os.environ)
        env["CARGO_NET_OFFLINE"] = "true"
        p = subprocess.run(
            ["cargo", "build", "--offline", "--quiet"], cwd=str(HARNESS_DIR), env=env,
            stdout=subprocess.PIPE, stderr=subprocess.STDOUT, text=True,
        )
        if p.returncode != 0 or not VRT.exists():
            sys.stdout.write(p.stdout[-4000:])
            print("INCONCLUSIVE: rust harness build failed")
            sys.exit(2)
    return VRT


def ensure(needs) -> None:
    if "deps" in needs:
        ensure_deps()
    if "rust" in needs:
        ensure_rust()
