"""Python-side helpers: flat logged memory, IL shape normaliser, consumer wrappers."""
from __future__ import annotations

import os

os.environ.setdefault("FORCE_BINJA_MOCK", "1")

from binja_test_mocks import binja_api  # noqa: F401,E402
from binja_test_mocks.eval_llil import Memory  # noqa: E402
from binja_test_mocks.mock_llil import (  # noqa: E402
    MockLowLevelILFunction, MockLLIL, MockLabel, MockIfExpr, MockGoto, MockIntrinsic,
)
from binaryninja.lowlevelil import LowLevelILLabel  # noqa: E402

ADDR_MASK = 0xFFFFFF


def fill_byte(addr: int) -> int:
    """Background fill: a mixing function of the full 24-bit address (same in the Rust harness)."""
    a = addr & ADDR_MASK
    x = (a * 0x9E3779B1 + 0x7F4A7C15) & 0xFFFFFFFF
    x ^= x >> 15
    x = (x * 0x85EBCA6B) & 0xFFFFFFFF
    x ^= x >> 13
    return x & 0xFF


class FlatMem(Memory):
    """Sparse flat 24-bit memory with read/write logs. Addresses are canonicalised & 0xFFFFFF."""

    def __init__(self, init: dict[int, int] | None = None, fill=fill_byte, log: bool = True):
        self.data: dict[int, int] = dict(init or {})
        self.fill = fill
        self.reads: list[int] = []
        self.writes: list[tuple[int, int]] = []
        self.log = log
        super().__init__(self._read, self._write)

    def _read(self, addr: int) -> int:
        a = addr & ADDR_MASK
        if self.log:
            self.reads.append(a)
        v = self.data.get(a)
        return self.fill(a) if v is None else v

    def _write(self, addr: int, value: int) -> None:
        a = addr & ADDR_MASK
        if self.log:
            self.writes.append((a, value & 0xFF))
        self.data[a] = value & 0xFF

    def peek(self, addr: int) -> int:
        a = addr & ADDR_MASK
        v = self.data.get(a)
        return self.fill(a) if v is None else v

    def poke(self, addr: int, value: int) -> None:
        self.data[addr & ADDR_MASK] = value & 0xFF

    def load_bytes(self, addr: int, data: bytes) -> None:
        for i, b in enumerate(data):
            self.data[(addr + i) & ADDR_MASK] = b

    def clear_logs(self) -> None:
        self.reads = []
        self.writes = []


def il_shape(il: MockLowLevelILFunction):
    """Normalise a lifted IL list to a hashable tree; labels renamed to their first-seen index."""
    labels: dict[int, int] = {}

    def lab(l):
        k = id(l)
        if k not in labels:
            labels[k] = len(labels)
        return ("L", labels[k])

    def conv(x):
        if isinstance(x, MockLabel):
            return ("label", lab(x.label))
        if isinstance(x, MockIfExpr):
            return ("if", conv(x.cond), lab(x.t), lab(x.f))
        if isinstance(x, MockGoto):
            return ("goto", lab(x.label))
        if isinstance(x, MockIntrinsic):
            return ("intrinsic", x.name, conv(x.outputs), conv(x.params))
        if isinstance(x, MockLLIL):
            return (x.op,) + tuple(conv(o) for o in x.ops)
        if isinstance(x, LowLevelILLabel):
            return lab(x)
        if isinstance(x, (int, str, type(None), bool)):
            return x
        if isinstance(x, (list, tuple)):
            return tuple(conv(o) for o in x)
        name = getattr(x, "name", None)
        if name is not None:
            return (type(x).__name__, str(name))
        return (type(x).__name__, str(x))

    return tuple(conv(n) for n in il.ils)


def tokens_text(tokens) -> str:
    from binja_test_mocks.tokens import asm_str
    return asm_str(tokens)


def tokens_key(tokens):
    return tuple((type(t).__name__, str(t)) for t in tokens)
