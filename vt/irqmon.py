"""Online trace checker for C12 (interrupt entry/exit, bounded delivery, HALT/OFF), model independent.

Fed with consecutive observation records (see vt.machine).  `kind` of a record is "step" (one emulator step was
executed since the previous record) or "obs" (an external event was injected, nothing executed).
Only the statement's clauses are used; an entry is recognised from architectural effects alone
(S dropped by 5, control at the vector, executed instruction was not IR).
"""
from __future__ import annotations

VECTOR = 0xFFFFA
OP_RETI, OP_IR, OP_HALT, OP_OFF = 0x01, 0xFE, 0xDE, 0xDF
K_PROGRESS = 2


class IrqMonitor:
    def __init__(self, model, vector_target, succ_fn, kb_irq_enabled=True):
        self.model = model                  # "py" | "rs"
        self.V = vector_target
        self.succ = succ_fn                 # pc -> set of possible next PCs (static), or None if unknown
        self.frames = []
        self.eligible_run = 0
        self.off_mode = False
        self.kb_irq = kb_irq_enabled
        self.prev = None
        self.viol = []                      # (clause, detail)
        self.stats = {"entries": 0, "retis": 0, "halt_steps": 0, "off_steps": 0, "eligible_boundaries": 0,
                      "sw_irq": 0, "wakes": 0}
        self.injected_isr = 0
        self.flag_drop = None               # where the model's private "pending" flag last went True -> False
        self.on_press_unarmed = False       # an ON-key press since then left that flag down

    # ------------------------------------------------------------------------------------------
    def _v(self, clause, **detail):
        self.viol.append((clause, detail))

    def eligible(self, r):
        src = 0x0F if self.kb_irq else 0x0B   # keyboard interrupts can be switched off by configuration
        return bool((r["imr"] & 0x80) and (r["imr"] & r["isr"] & src) and not self.frames and r["power"] == "running")

    def feed(self, rec, kind="step", injected=None):
        a, b = self.prev, rec
        self.prev = rec
        if a is None:
            return
        if b.get("pending"):
            self.on_press_unarmed = False
        if kind == "obs":
            if a.get("pending") and not b.get("pending"):
                self.flag_drop = "event:" + (str(injected[0]) if injected else "?")
            if injected and injected[0] == "on" and injected[1] and not b.get("pending") and (b["isr"] & 8):
                # the ON key went down, its status bit is up, but the model's private "pending" flag was not raised
                self.on_press_unarmed = True
            # an injected event must not execute anything
            if b["pc"] != a["pc"] or b["S"] != a["S"]:
                self._v("event_injection_moved_cpu", a_pc=a["pc"], b_pc=b["pc"])
            if injected and injected[0] in ("wimem", "imem_or", "imem_and") and injected[1] == 0xFC:
                self.injected_isr |= b["isr"] & ~a["isr"] & 0xFF
            return
        py = self.model == "py"
        executed = a.get("op_eff", a["opcode"])
        if executed == 0xFF and a["power"] == "running":
            # RESET: control restarts at the entry vector; every frame of the old stack is abandoned
            self.frames.clear()
            self.eligible_run = 0
            self.off_mode = False
            self.stats["resets"] = self.stats.get("resets", 0) + 1
            # (no return: a request may be delivered at the end of this very step)
        was_low_power = a["power"] != "running"
        # a CPU that slept inside a handler (HALT as a handler instruction) and was woken in this step has executed the
        # instruction it slept in front of - a RETI, say - before the boundary: both models wake and run in one step
        woke_and_ran = was_low_power and b["power"] == "running" and (b["pc"] != a["pc"] or b["S"] != a["S"])
        V = self.V
        entry = False
        reti_then_entry = False
        s_before = a["S"]
        if executed == 0x0F and not was_low_power and b["pc"] in ((V, V + 1) if py else (V,)) and \
                b["irq_total"] == a["irq_total"] + 1:
            # the executed instruction itself loaded S (MV S,imm20, e.g. first instruction after RESET) and a request was
            # delivered at the end of the same step: the frame sits below the NEW stack pointer
            s_before = (b["S"] + 5) & 0xFFFFF
        if b["S"] == ((s_before - 5) & 0xFFFFF) and b["pc"] in ((V, V + 1) if py else (V,)) and executed != OP_IR:
            entry = True
        elif (not py and executed == OP_RETI and (not was_low_power or woke_and_ran) and b["pc"] == V and b["S"] == a["S"]
              and self.frames):
            entry = True
            reti_then_entry = True
        if executed == OP_IR and not was_low_power and b["S"] == ((a["S"] - 5) & 0xFFFFF):
            self.stats["sw_irq"] += 1
            pushed = b["stack"][5:10]
            self.frames.append({"pc": pushed[2] | (pushed[3] << 8) | (pushed[4] << 16), "f": pushed[1] & 3,
                                "imr": pushed[0], "S": a["S"], "sw": True})
            return

        # ---------------- RETI (possibly followed, on Rust, by an immediate new entry) --------------------------
        did_reti = executed == OP_RETI and (not was_low_power or woke_and_ran) and (not entry or reti_then_entry)
        mid = None
        if did_reti:
            self.stats["retis"] += 1
            if self.frames:
                top = self.frames.pop()
                mid = {"pc": top["pc"], "f": top["f"], "imr": top["imr"], "S": top["S"]}
                if not reti_then_entry:
                    bad = {}
                    if (b["pc"] & 0xFFFFF) != (top["pc"] & 0xFFFFF):
                        bad["pc"] = (b["pc"], top["pc"])
                    if b["f"] != top["f"]:
                        bad["f"] = (b["f"], top["f"])
                    if b["imr"] != top["imr"]:
                        bad["imr"] = (b["imr"], top["imr"])
                    if b["S"] != top["S"]:
                        bad["S"] = (b["S"], top["S"])
                    if bad:
                        self._v("reti_does_not_restore", fields=sorted(bad), detail=bad)
                    if not self.frames and b["in_irq"] and not top.get("sw"):
                        self._v("in_interrupt_flag_survives_reti", pc=b["pc"])
                    # returning from one source must not retire a DIFFERENT, still pending request
                    src_mask = {"MTI": 1, "STI": 2, "KEY": 4, "ONK": 8}.get(top.get("source") or "", None)
                    if top.get("sw"):
                        src_mask = 0        # a software interrupt delivered no hardware source: nothing to retire
                    cleared = a["isr"] & ~b["isr"] & 0x0F
                    if src_mask is not None and cleared & ~src_mask:
                        self._v("reti_clears_other_status_bits", delivered=top.get("source"), isr_before=a["isr"],
                                isr_after=b["isr"])
                    elif not top.get("sw") and "eligible" in top and cleared & ~top["eligible"]:
                        # whatever the model calls the delivered source: a status bit that was masked (or not pending)
                        # when the interrupt was taken was not delivered, so returning must not retire it
                        self._v("reti_retires_request_not_delivered", label=top.get("source"), eligible_at_entry=top["eligible"],
                                isr_before=a["isr"], isr_after=b["isr"])
        # ---------------- entry ------------------------------------------------------------------------------
        if entry:
            self.stats["entries"] += 1
            pushed = b["stack"][5:10]
            p_imr, p_f = pushed[0], pushed[1]
            p_pc = pushed[2] | (pushed[3] << 8) | (pushed[4] << 16)
            isr_at = b["isr"]
            if not (p_imr & 0x80):
                self._v("entered_with_master_enable_clear", pushed_imr=p_imr, isr=isr_at, pc=a["pc"])
            if not (p_imr & isr_at & 0x7F):      # any of the seven sources (bits 4-6: serial/external, host-raised only)
                self._v("entered_without_enabled_pending_source", pushed_imr=p_imr, isr=isr_at, pc=a["pc"])
            else:
                # "... only if the SOURCE's mask bit is set and ITS status bit is pending": the source the model says it
                # delivered must itself be one of the enabled pending ones (a masked higher-priority bit that is merely
                # set must not be the one that is booked - and later retired by RETI)
                # (the label itself is bookkeeping - the Python model keeps the label of the last host event - so it is
                #  only counted here; what is judged is its consequence at RETI, see "reti_retires_request_not_delivered")
                smask = {"MTI": 1, "STI": 2, "KEY": 4, "ONK": 8}.get(b.get("source") or "", None)
                if smask is not None and not (smask & p_imr & isr_at):
                    self.stats["source_label_not_eligible"] = self.stats.get("source_label_not_eligible", 0) + 1
            f_at = mid["f"] if reti_then_entry else b["f"]
            if (p_f & 3) != f_at:
                self._v("pushed_flags_wrong", pushed=p_f, f=f_at)
            if reti_then_entry:
                want_pcs = {mid["pc"] & 0xFFFFF}
            elif was_low_power:
                # a sleeping CPU resumes after the HALT/OFF instruction (Rust keeps PC on it, Python past it)
                # (Rust wakes, executes the next instruction and delivers at the end of that step; Python delivers first)
                s = self.succ(a["pc"]) or set()
                want_pcs = {a["pc"] & 0xFFFFF} | {x & 0xFFFFF for x in s}
            elif py:
                want_pcs = {a["pc"] & 0xFFFFF}
            else:
                s = self.succ(a["pc"])
                want_pcs = {x & 0xFFFFF for x in s} if s else None
            if executed == 0xFF:
                want_pcs = None      # RESET continues at the reset entry, which the static successor table does not know
            if want_pcs is not None and (p_pc & 0xFFFFF) not in want_pcs:
                self._v("pushed_resume_pc_wrong", pushed=p_pc, want=sorted(want_pcs), at=a["pc"])
            if b["imr"] != (p_imr & 0x7F):
                self._v("master_enable_not_cleared_or_mask_changed", imr_after=b["imr"], pushed_imr=p_imr)
            if not b["in_irq"]:
                self._v("entry_without_in_interrupt_flag", pc=b["pc"])
            if b["power"] != "running":
                # a taken interrupt continues at the vector: the handler must be able to run
                self._v("interrupt_taken_but_cpu_left_sleeping", power=b["power"], pc=b["pc"], executed=executed)
            if b["irq_total"] != a["irq_total"] + 1:
                self._v("entry_without_counter", before=a["irq_total"], after=b["irq_total"])
            self.frames.append({"pc": p_pc, "f": p_f & 3, "imr": p_imr, "S": mid["S"] if reti_then_entry else s_before,
                                "source": b.get("source"), "eligible": p_imr & isr_at & 0x0F})
            self.eligible_run = 0
        else:
            if b["irq_total"] != a["irq_total"] and executed != OP_IR:
                self._v("counter_without_entry", before=a["irq_total"], after=b["irq_total"], pc=a["pc"], S=(a["S"], b["S"]))
        if a.get("pending") and not b.get("pending"):
            self.flag_drop = "entry" if entry else ("reti" if did_reti else "step")
        # ---------------- bounded progress -------------------------------------------------------------------
        if not entry and self.eligible(a) and self.eligible(b):
            self.eligible_run += 1
            self.stats["eligible_boundaries"] += 1
            if self.eligible_run >= K_PROGRESS:
                self._v("pending_unmasked_request_not_delivered", imr=b["imr"], isr=b["isr"], pc=b["pc"],
                        boundaries=self.eligible_run + 1, model_pending_flag=b.get("pending"),
                        flag_dropped_at=self.flag_drop, on_press_did_not_arm=self.on_press_unarmed)
                self.eligible_run = 0
        elif not self.eligible(b):
            self.eligible_run = 0
        # ---------------- HALT / OFF ------------------------------------------------------------------------
        if was_low_power and self.off_mode and a["isr"] == 0:
            # (with a status bit already pending at `a` the step legitimately wakes and runs again)
            self.stats["off_steps"] += 1
            rose = (b["isr"] & ~a["isr"]) & 3 & ~self.injected_isr
            # stopped timers: neither the absolute targets nor their distance from "now" may shrink while off (time that
            # passes while powered off must not be charged to the timers at wake-up)
            dist_a = (a["next_mti"] - a["cycles"], a["next_sti"] - a["cycles"])
            dist_b = (b["next_mti"] - b["cycles"], b["next_sti"] - b["cycles"])
            if (b["next_mti"], b["next_sti"]) != (a["next_mti"], a["next_sti"]) or rose or \
                    (a.get("timer_enabled") and dist_a != dist_b):
                self._v("timers_advance_while_powered_off", a=(a["next_mti"], a["next_sti"], a["isr"]),
                        b=(b["next_mti"], b["next_sti"], b["isr"]), cycles=(a["cycles"], b["cycles"]))
        if executed == OP_OFF and not was_low_power and not entry and b["power"] != "running":
            self.off_mode = True
        if b["power"] == "running":
            if was_low_power:
                self.stats["wakes"] += 1
                if a["isr"] == 0 and b["isr"] == 0:
                    self._v("woke_with_isr_zero", pc=b["pc"])
            if was_low_power or executed != OP_OFF:
                self.off_mode = False
        if was_low_power and b["power"] != "running":
            self.stats["halt_steps"] += 1
            same = all(a[k] == b[k] for k in ("pc", "BA", "I", "X", "Y", "U", "S", "f"))
            if a["isr"] & ~b["isr"] & 0x0F:
                # nothing executes while asleep, so nothing can acknowledge a status bit
                self._v("status_bit_dropped_while_sleeping", isr_before=a["isr"], isr_after=b["isr"], power=b["power"],
                        in_handler=bool(self.frames))
            if not same:
                self._v("halted_cpu_changed_state", a={k: a[k] for k in ("pc", "S", "BA")}, b={k: b[k] for k in ("pc", "S", "BA")})
            if a["isr"] != 0 and (self.kb_irq or (a["isr"] & ~0x04)):
                self._v("stays_halted_with_status_pending", isr=a["isr"], pc=a["pc"])
        # ---------------- a timer that fired leaves its status bit (C13 clause at machine level) -----------------
        # a target that moved forward in this step means the timer fired in this step: its status bit must be visible at the
        # boundary unless the executed instruction itself may have written ISR (AND/OR/MV to an internal-memory byte)
        if a.get("timer_enabled") and executed not in (0x70, 0x71, 0x72, 0x73, 0x78, 0x79, 0x7A, 0x7B, 0xCC, 0xCD, 0xA0, 0xA1,
                                                       0xC8, 0xC0, 0xFF):
            for bit, key in ((1, "next_mti"), (2, "next_sti")):
                if b[key] > a[key] and not (b["isr"] & bit):
                    self._v("timer_fired_without_status_bit", timer=key, before=a[key], after=b[key], isr=b["isr"],
                            executed=executed, in_handler=bool(self.frames))
        # ---------------- a masked key request is not lost -----------------------------------------------------
        # queued key events with KEYI raised, while the key source cannot be delivered (master enable or KEY mask clear
        # before and after the step): no instruction of these programs reads KIL, so whatever the step did (e.g. a
        # handler's blanket `MV (ISR),0`) the events and the request must still be there when the mask opens again
        if (a.get("fifo") and (a["isr"] & 4) and (a["imr"] & 0x84) != 0x84 and (b["imr"] & 0x84) != 0x84 and not entry
                and executed != 0xFF and self.kb_irq and not was_low_power):
            self.stats["masked_key_steps"] = self.stats.get("masked_key_steps", 0) + 1
            if not b.get("fifo") and not (b["isr"] & 4):
                self._v("masked_key_request_discarded", imr=a["imr"], isr_before=a["isr"], isr_after=b["isr"],
                        fifo_before=a.get("fifo"), executed=executed, pc=a["pc"])
        # ---------------- KEYI edge (machine level, C14 clause) ---------------------------------------------
        if not py and (b["isr"] & 4) and not (a["isr"] & 4) and not (self.injected_isr & 4):
            if not self.kb_irq or not (a.get("fifo") or b.get("fifo")):
                self._v("keyi_raised_without_pending_or_enable", fifo=b.get("fifo"), kb_irq=self.kb_irq)
        self.injected_isr = 0
