"""Reference SC62015 semantics written from sc62015/pysc62015/README.md (instruction tables) only.

Input: mnemonic + operand descriptors from vt.tok (i.e. from the *rendered text*), the pre-state
registers, a pure reader of pre-state memory, the instruction address and length.
Output (Ref object): expected registers, expected final memory writes (with per-byte compare masks),
data-read set, permitted address-computation reads, don't-care outputs, and `unjudged` (a reason string
when the README does not determine the case: wrap-arounds, I == 0, aliasing pointer/data registers ...).

Internal memory lives at IMEM + offset in the flat space (the lifter's own convention).
"""
from __future__ import annotations

IMEM = 0x100000
PTR_MASK = 0xFFFFF
W = {"A": 1, "B": 1, "IL": 1, "IH": 1, "BA": 2, "I": 2, "X": 3, "Y": 3, "U": 3, "S": 3, "PC": 3,
     "F": 1, "IMR": 1}
PTRS = ("X", "Y", "U", "S", "PC")
IMR_OFF, ISR_OFF = 0xFB, 0xFC
VEC_IRQ = 0xFFFFA


class Unjudged(Exception):
    pass


class Ref:
    def __init__(self, regs: dict, rd, addr: int, length: int):
        # regs: BA, I, X, Y, U, S, FC, FZ (PC implied by addr)
        self.r = {k: regs[k] for k in ("BA", "I", "X", "Y", "U", "S", "FC", "FZ")}
        self.rd0 = rd
        self.addr = addr
        self.length = length
        self.pc = (addr + length) & PTR_MASK
        self.w: dict[int, int] = {}
        self.wmask: dict[int, int] = {}
        self.data_reads: set[int] = set()
        self.addr_reads: set[int] = set()
        self.dc: set[str] = set()         # don't-care outputs: "C","Z","I","F_hi", "val" (written values)
        self.unjudged: str | None = None
        self.halted = False
        self.notes: list[str] = []
        self.optional_writes: set[int] = set()

    # ---- registers -------------------------------------------------------------------------
    def get(self, n: str) -> int:
        r = self.r
        if n == "A":
            return r["BA"] & 0xFF
        if n == "B":
            return (r["BA"] >> 8) & 0xFF
        if n == "IL":
            return r["I"] & 0xFF
        if n == "IH":
            return (r["I"] >> 8) & 0xFF
        if n == "F":
            return r["FC"] | (r["FZ"] << 1)
        if n == "IMR":
            return self.mrd(IMEM + IMR_OFF)
        if n == "PC":
            return self.pc
        return r[n]

    def set(self, n: str, v: int) -> None:
        r = self.r
        if n == "A":
            r["BA"] = (r["BA"] & 0xFF00) | (v & 0xFF)
        elif n == "B":
            r["BA"] = (r["BA"] & 0x00FF) | ((v & 0xFF) << 8)
        elif n == "IL":
            r["I"] = v & 0xFF           # README: if r1 = IL then IH <- 0
        elif n == "IH":
            r["I"] = (r["I"] & 0x00FF) | ((v & 0xFF) << 8)
        elif n == "F":
            r["FC"] = v & 1
            r["FZ"] = (v >> 1) & 1
        elif n == "IMR":
            self.mwr(IMEM + IMR_OFF, v & 0xFF)
        elif n == "PC":
            self.pc = v & PTR_MASK
        elif n in ("BA", "I"):
            r[n] = v & 0xFFFF
        else:
            r[n] = v & PTR_MASK

    # ---- memory ----------------------------------------------------------------------------
    def _peek(self, a: int) -> int:
        a &= 0xFFFFFF
        return self.w[a] if a in self.w else self.rd0(a)

    def mrd(self, a: int, kind: str = "data") -> int:
        a &= 0xFFFFFF
        (self.data_reads if kind == "data" else self.addr_reads).add(a)
        return self._peek(a)

    def mwr(self, a: int, v: int, mask: int = 0xFF) -> None:
        a &= 0xFFFFFF
        self.w[a] = v & 0xFF
        self.wmask[a] = mask

    def _span(self, base: int, w: int, internal: bool) -> None:
        if internal:
            if (base - IMEM) + w - 1 > 0xFF:
                raise Unjudged("imem_operand_crosses_FF")
        else:
            if base < 0 or base + w - 1 > PTR_MASK:
                raise Unjudged("external_address_outside_20_bits")

    def load(self, base: int, w: int, kind: str = "data") -> int:
        self._span(base, w, base >= IMEM)
        v = 0
        for i in range(w):
            v |= self.mrd(base + i, kind) << (8 * i)
        return v

    def store(self, base: int, w: int, v: int) -> None:
        self._span(base, w, base >= IMEM)
        for i in range(w):
            self.mwr(base + i, (v >> (8 * i)) & 0xFF)

    # ---- operands --------------------------------------------------------------------------
    def imem_off(self, d: dict) -> int:
        m = d["mode"]
        if m == "n":
            return d["n"]
        bp = lambda: self.mrd(IMEM + 0xEC, "addr")  # noqa: E731
        px = lambda: self.mrd(IMEM + 0xED, "addr")  # noqa: E731
        py = lambda: self.mrd(IMEM + 0xEE, "addr")  # noqa: E731
        if m == "bp+n":
            return (bp() + d["n"]) & 0xFF
        if m == "px+n":
            return (px() + d["n"]) & 0xFF
        if m == "py+n":
            return (py() + d["n"]) & 0xFF
        if m == "bp+px":
            return (bp() + px()) & 0xFF
        if m == "bp+py":
            return (bp() + py()) & 0xFF
        raise ValueError(m)

    def resolve(self, d: dict, w: int):
        """-> ('reg', name) | ('imm', v) | ('mem', addr). Applies ++/-- side effects with step w."""
        k = d["k"]
        if k == "reg":
            return ("reg", d["name"])
        if k == "imm":
            return ("imm", d["v"])
        if k == "imem":
            return ("mem", IMEM + self.imem_off(d))
        if k == "emem_abs":
            return ("mem", d["addr"])
        if k == "emem_reg":
            reg = d["reg"]
            base = self.get(reg) & PTR_MASK if W[reg] == 3 else self.get(reg)
            if W[reg] != 3:
                raise Unjudged("pointer_register_not_r3")
            if d["mode"] == "simple":
                return ("mem", base)
            if d["mode"] == "post_inc":
                if base + w > PTR_MASK:
                    raise Unjudged("pointer_wrap")
                self.set(reg, base + w)
                return ("mem", base)
            if d["mode"] == "pre_dec":
                if base - w < 0:
                    raise Unjudged("pointer_wrap")
                self.set(reg, base - w)
                return ("mem", base - w)
            a = base + d["disp"]
            if a < 0 or a > PTR_MASK:
                # [r3+-n] leaving 0..0xFFFFF: undocumented, but a separate mechanism from a pointer REGISTER stepping over
                # the edge (both cores form the 24-bit sum here): own tag, so the pointer-step finding does not cover it
                raise Unjudged("pointer_offset_wrap")
            return ("mem", a)
        if k == "emem_imem":
            p = IMEM + self.imem_off(d["imem"])
            ptr = self.load(p, 3, "addr")
            if ptr > PTR_MASK:
                raise Unjudged("indirect_pointer_above_20_bits")
            a = ptr + d["disp"]
            if a < 0 or a > PTR_MASK:
                raise Unjudged("pointer_wrap")
            return ("mem", a)
        raise ValueError(k)

    def rval(self, loc, w: int) -> int:
        if loc[0] == "reg":
            return self.get(loc[1]) & ((1 << (8 * w)) - 1)
        if loc[0] == "imm":
            return loc[1] & ((1 << (8 * w)) - 1)
        return self.load(loc[1], w)

    def wval(self, loc, w: int, v: int) -> None:
        if loc[0] == "reg":
            self.set(loc[1], v)
        elif loc[0] == "mem":
            self.store(loc[1], w, v)
        else:
            raise ValueError("write to immediate")

    def setcz(self, c=None, z=None):
        if c is not None:
            self.r["FC"] = 1 if c else 0
        if z is not None:
            self.r["FZ"] = 1 if z else 0


def _regs_in(ops):
    out = []
    for d in ops:
        if d["k"] == "reg":
            out.append(d["name"])
    return out


def _ptr_regs(ops):
    return [d["reg"] for d in ops if d["k"] == "emem_reg" and d["mode"] in ("post_inc", "pre_dec")]


def mv_width(mn, ops):
    if mn == "MVW":
        return 2
    if mn == "MVP":
        return 3
    regs = _regs_in(ops)
    if regs:
        return W[regs[0]]
    return 1


def bcd_ok(x):
    return (x & 0xF) <= 9 and (x >> 4) <= 9


def bcd_add(a, b, c):
    lo = (a & 0xF) + (b & 0xF) + c
    cl = 0
    if lo > 9:
        lo -= 10
        cl = 1
    hi = (a >> 4) + (b >> 4) + cl
    co = 0
    if hi > 9:
        hi -= 10
        co = 1
    return (hi << 4) | lo, co


def bcd_sub(a, b, c):
    lo = (a & 0xF) - (b & 0xF) - c
    bl = 0
    if lo < 0:
        lo += 10
        bl = 1
    hi = (a >> 4) - (b >> 4) - bl
    bo = 0
    if hi < 0:
        hi += 10
        bo = 1
    return (hi << 4) | lo, bo


def step(mn: str, ops: list, regs: dict, rd, addr: int, length: int) -> Ref:
    s = Ref(regs, rd, addr, length)
    try:
        _step(s, mn, ops)
        ptr_bytes = {IMEM + 0xEC, IMEM + 0xED, IMEM + 0xEE}
        if (set(s.w) & ptr_bytes) and (s.addr_reads & ptr_bytes):
            raise Unjudged("instruction_overwrites_BP_PX_PY_it_addresses_through")
    except Unjudged as u:
        s.unjudged = str(u)
    return s


def _count(s: Ref) -> int:
    n = s.get("I")
    if n == 0:
        raise Unjudged("I_is_zero")
    return n


def _step(s: Ref, mn: str, ops: list) -> None:
    addr, length = s.addr, s.length
    same_page = (addr & 0xF0000) == ((addr + length) & 0xF0000) and addr + length <= PTR_MASK
    page = addr & 0xF0000

    # a data register that is also the ++/-- pointer register: order undocumented
    pr = _ptr_regs(ops)
    if pr and any(r in pr for r in _regs_in(ops)):
        raise Unjudged("pointer_register_is_data_register")

    if mn in ("NOP", "TCL"):
        return
    if mn in ("MV", "MVW", "MVP"):
        w = mv_width(mn, ops)
        dst, src = ops
        # source first, then destination (MV evaluates source value then assigns)
        sl = s.resolve(src, w)
        v = s.rval(sl, w)
        dl = s.resolve(dst, w)
        s.wval(dl, w, v)
        return
    if mn in ("MVL", "MVLD"):
        n = _count(s)
        dst, src = ops
        step_ = -1 if mn == "MVLD" else 1
        dstep = sstep = step_

        def start(d):
            if d["k"] == "emem_reg" and d["mode"] in ("post_inc", "pre_dec"):
                return None
            try:
                return s.resolve(d, 1)[1]
            except Unjudged as e:
                if str(e.args[0] if e.args else "") == "pointer_offset_wrap":
                    # a BLOCK that starts outside the external space: the recorded block case, not the single-access one
                    raise Unjudged("block_leaves_its_address_space")
                raise

        def ok(a):
            return (IMEM <= a <= IMEM + 0xFF) or (0 <= a <= PTR_MASK)

        def run(d_addr0, s_addr0):
            da, sa = d_addr0, s_addr0
            d_int, s_int = da >= IMEM, sa >= IMEM
            # an EXTERNAL block that runs out of 0..0xFFFFF anywhere in the transfer is the (recorded) external-space case,
            # whatever the internal side does
            for i in range(n):
                for cur, internal in ((da + i * dstep, d_int), (sa + i * sstep, s_int)):
                    if not internal and not (0 <= cur <= PTR_MASK):
                        raise Unjudged("block_leaves_its_address_space")
            for _ in range(n):
                for cur, internal in ((da, d_int), (sa, s_int)):
                    if internal and not (IMEM <= cur <= IMEM + 0xFF):
                        # internal block runs past offset 0x00/0xFF: not described by the README, but both cores wrap inside
                        # the window - disagreement here is NOT covered by the external-space finding
                        raise Unjudged("imem_move_block_wrap")
                if not ok(da) or not ok(sa) or (da >= IMEM) != d_int or (sa >= IMEM) != s_int:
                    raise Unjudged("block_leaves_its_address_space")
                s.mwr(da, s.mrd(sa))
                da += dstep
                sa += sstep
            return da, sa

        # register-indirect ++/-- forms: r3 is updated (README rows "r3 updated")
        if src["k"] == "emem_reg" and src["mode"] == "post_inc":
            d0 = start(dst)
            r = src["reg"]
            base = s.get(r)
            _, sa = run(d0, base)
            s.set(r, base + n)
        elif src["k"] == "emem_reg" and src["mode"] == "pre_dec":
            # README: d<-(n), s<-[r3]. Loop I times: [d++] <- [--s]. r3 updated.
            d0 = start(dst)
            r = src["reg"]
            base = s.get(r)
            sstep = -1
            if base - n < 0:
                raise Unjudged("pointer_wrap")
            run(d0, base - 1)
            s.set(r, base - n)
        elif dst["k"] == "emem_reg" and dst["mode"] == "post_inc":
            s0 = start(src)
            r = dst["reg"]
            base = s.get(r)
            run(base, s0)
            s.set(r, base + n)
        elif dst["k"] == "emem_reg" and dst["mode"] == "pre_dec":
            # README: Loop I times: [--d] <- [s++]. r3 updated.
            s0 = start(src)
            r = dst["reg"]
            base = s.get(r)
            dstep = -1
            if base - n < 0:
                raise Unjudged("pointer_wrap")
            run(base - 1, s0)
            s.set(r, base - n)
        else:
            d0 = start(dst)
            s0 = start(src)
            run(d0, s0)
        s.set("I", 0)
        return
    if mn in ("EX", "EXW", "EXP"):
        a, b = ops
        if a["k"] == "reg":
            w = W[a["name"]]
        else:
            w = {"EX": 1, "EXW": 2, "EXP": 3}[mn]
        la = s.resolve(a, w)
        lb = s.resolve(b, w)
        va, vb = s.rval(la, w), s.rval(lb, w)
        s.wval(la, w, vb)
        s.wval(lb, w, va)
        return
    if mn == "EXL":
        n = _count(s)
        a, b = ops
        la = s.resolve(a, 1)[1]
        lb = s.resolve(b, 1)[1]
        for i in range(n):
            if la + i > IMEM + 0xFF or lb + i > IMEM + 0xFF:
                raise Unjudged("imem_block_wrap")
            va, vb = s.mrd(la + i), s.mrd(lb + i)
            s.mwr(la + i, vb)
            s.mwr(lb + i, va)
        s.set("I", 0)
        return
    if mn in ("ADD", "SUB", "ADC", "SBC"):
        a, b = ops
        if a["k"] == "reg":
            w = W[a["name"]]
        else:
            w = 1
        bits = 8 * w
        la = s.resolve(a, w)
        wb = W[b["name"]] if b["k"] == "reg" else w
        if b["k"] == "reg" and W[b["name"]] > w:
            raise Unjudged("source_register_wider_than_destination")
        lb = s.resolve(b, min(wb, w))
        va = s.rval(la, w)
        vb = s.rval(lb, min(wb, w))
        cin = s.r["FC"] if mn in ("ADC", "SBC") else 0
        if a["k"] == "reg" and W[a["name"]] == 3:
            # r3 destination: registers are 20-bit (README says 24): judge only where both agree
            full20 = (va + vb + cin) if mn in ("ADD", "ADC") else (va - vb - cin)
            res = full20 & PTR_MASK
            s.wval(la, w, res)
            c20 = full20 > PTR_MASK or full20 < 0
            c24 = (full20 > 0xFFFFFF or full20 < 0)
            if c20 == c24:
                s.setcz(c=c20)
            else:
                s.dc.add("C")
            z24 = (full20 & 0xFFFFFF) == 0
            if (res == 0) == z24:
                s.setcz(z=res == 0)
            else:
                s.dc.add("Z")
            return
        full = (va + vb + cin) if mn in ("ADD", "ADC") else (va - vb - cin)
        res = full & ((1 << bits) - 1)
        s.wval(la, w, res)
        s.setcz(c=(full >> bits) != 0 if full >= 0 else True, z=res == 0)
        return
    if mn in ("ADCL", "SBCL", "DADL", "DSBL"):
        n = _count(s)
        a, b = ops
        la = s.resolve(a, 1)[1]
        reg_src = b["k"] == "reg"
        lb = None if reg_src else s.resolve(b, 1)[1]
        step_ = -1 if mn in ("DADL", "DSBL") else 1
        c = s.r["FC"]
        if mn == "DADL" and c:
            # README formula has +C; the implementation documents "no incoming carry": undetermined
            raise Unjudged("dadl_with_carry_in")
        if reg_src and mn in ("DADL", "DSBL") and n > 1:
            raise Unjudged("bcd_register_source_multibyte")
        zero_all = True
        last = 0
        valid = True
        for i in range(n):
            pa = la + step_ * i
            if not (IMEM <= pa <= IMEM + 0xFF):
                raise Unjudged("imem_block_wrap")
            va = s.mrd(pa)
            if reg_src:
                vb = s.get(b["name"]) & 0xFF
            else:
                pb = lb + step_ * i
                if not (IMEM <= pb <= IMEM + 0xFF):
                    raise Unjudged("imem_block_wrap")
                vb = s.mrd(pb)
            if mn == "ADCL":
                full = va + vb + c
                res, c = full & 0xFF, full >> 8
            elif mn == "SBCL":
                full = va - vb - c
                res, c = full & 0xFF, 1 if full < 0 else 0
            elif mn == "DADL":
                if not (bcd_ok(va) and bcd_ok(vb)):
                    valid = False
                res, c = bcd_add(va, vb, c)
            else:
                if not (bcd_ok(va) and bcd_ok(vb)):
                    valid = False
                res, c = bcd_sub(va, vb, c)
            s.mwr(pa, res)
            zero_all = zero_all and res == 0
            last = res
        s.set("I", 0)
        if not valid:
            s.dc.update(("C", "Z", "val"))
            return
        s.setcz(c=c)
        if zero_all == (last == 0):
            s.setcz(z=zero_all)
        else:
            s.dc.add("Z")   # "Z affected": whole-result vs last-byte reading not determined by README
        return
    if mn == "PMDF":
        a, b = ops
        la = s.resolve(a, 1)
        lb = s.resolve(b, 1)
        s.wval(la, 1, (s.rval(la, 1) + s.rval(lb, 1)) & 0xFF)
        return
    if mn in ("AND", "OR", "XOR"):
        a, b = ops
        la = s.resolve(a, 1)
        lb = s.resolve(b, 1)
        va, vb = s.rval(la, 1), s.rval(lb, 1)
        res = {"AND": va & vb, "OR": va | vb, "XOR": va ^ vb}[mn]
        s.wval(la, 1, res)
        s.setcz(z=res == 0)
        return
    if mn == "TEST":
        a, b = ops
        va = s.rval(s.resolve(a, 1), 1)
        vb = s.rval(s.resolve(b, 1), 1)
        s.setcz(z=(va & vb) == 0)
        return
    if mn in ("CMP", "CMPW", "CMPP"):
        w = {"CMP": 1, "CMPW": 2, "CMPP": 3}[mn]
        a, b = ops
        va = s.rval(s.resolve(a, w), w)
        if b["k"] == "reg":
            if W[b["name"]] != w:
                raise Unjudged("compare_register_width_mismatch")
            vb = s.get(b["name"])
            # README: CMPP (m),r3 = (m..m+2) - r3: the three memory bytes against the (20-bit, zero-extended) register;
            # a memory value with bits 20-23 set is simply greater than any r3 value
        else:
            vb = s.rval(s.resolve(b, w), w)
        s.setcz(c=va < vb, z=va == vb)
        return
    if mn in ("INC", "DEC"):
        (a,) = ops
        w = W[a["name"]] if a["k"] == "reg" else 1
        la = s.resolve(a, w)
        v = s.rval(la, w)
        mask = PTR_MASK if (a["k"] == "reg" and w == 3) else (1 << (8 * w)) - 1
        res = (v + (1 if mn == "INC" else -1)) & mask
        s.wval(la, w, res)
        s.setcz(z=res == 0)
        return
    if mn in ("ROR", "ROL", "SHR", "SHL"):
        (a,) = ops
        la = s.resolve(a, 1)
        v = s.rval(la, 1)
        c = s.r["FC"]
        if mn == "ROR":
            res, co = (v >> 1) | ((v & 1) << 7), v & 1
        elif mn == "ROL":
            res, co = ((v << 1) & 0xFF) | (v >> 7), v >> 7
        elif mn == "SHR":
            res, co = (v >> 1) | (c << 7), v & 1
        else:
            res, co = ((v << 1) & 0xFF) | c, v >> 7
        s.wval(la, 1, res)
        s.setcz(c=co, z=res == 0)
        return
    if mn in ("DSLL", "DSRL"):
        n = _count(s)
        (a,) = ops
        la = s.resolve(a, 1)[1]
        step_ = -1 if mn == "DSLL" else 1
        for i in range(n):
            pa = la + step_ * i
            if not (IMEM <= pa <= IMEM + 0xFF):
                raise Unjudged("imem_block_wrap")
            s.mrd(pa)
            s.mwr(pa, 0)
        s.set("I", 0)
        s.dc.update(("val", "Z"))   # digit-shift arithmetic is only sketched in the README
        return
    if mn == "SWAP":
        (a,) = ops
        la = s.resolve(a, 1)
        v = s.rval(la, 1)
        res = ((v << 4) | (v >> 4)) & 0xFF
        s.wval(la, 1, res)
        s.setcz(z=res == 0)
        s.dc.add("C")
        return
    if mn == "SC":
        s.setcz(c=1)
        return
    if mn == "RC":
        s.setcz(c=0)
        return
    if mn in ("JP", "JPF") or (mn.startswith("JP") and mn[2:] in ("Z", "NZ", "C", "NC")):
        cond = mn[2:] if mn not in ("JP", "JPF") else ""
        (a,) = ops
        take = _cond(s, cond)
        if a["k"] == "imm":
            if a["w"] == 3:
                tgt = a["v"] & PTR_MASK
            else:
                if not same_page:
                    raise Unjudged("page_boundary")
                tgt = page | a["v"]
        elif a["k"] == "reg":
            wr = W[a["name"]]
            if wr != 3:
                raise Unjudged("jp_register_not_r3")
            tgt = s.get(a["name"]) & PTR_MASK
        else:
            tgt = s.rval(s.resolve(a, 3), 3)
            if tgt > PTR_MASK:
                raise Unjudged("indirect_pointer_above_20_bits")
        if take:
            s.pc = tgt
        return
    if mn.startswith("JR"):
        cond = mn[2:]
        (a,) = ops
        if _cond(s, cond):
            s.pc = (addr + length + a["v"]) & PTR_MASK
            if not (0 <= addr + length + a["v"] <= PTR_MASK):
                raise Unjudged("pc_wrap")
        return
    if mn in ("CALL", "CALLF"):
        (a,) = ops
        sp = s.get("S")
        if mn == "CALL":
            if not same_page:
                raise Unjudged("page_boundary")
            if sp - 2 < 0:
                raise Unjudged("pointer_wrap")
            s.set("S", sp - 2)
            s.store(sp - 2, 2, (addr + length) & 0xFFFF)
            s.pc = page | a["v"]
        else:
            if sp - 3 < 0:
                raise Unjudged("pointer_wrap")
            s.set("S", sp - 3)
            s.store(sp - 3, 3, (addr + length) & PTR_MASK)
            s.pc = a["v"] & PTR_MASK
        return
    if mn in ("RET", "RETF", "RETI"):
        sp = s.get("S")
        if mn == "RET":
            if not same_page:
                raise Unjudged("page_boundary")
            s.pc = page | s.load(sp, 2)
            s.set("S", sp + 2)
        elif mn == "RETF":
            v = s.load(sp, 3)
            if v > PTR_MASK:
                raise Unjudged("indirect_pointer_above_20_bits")
            s.pc = v
            s.set("S", sp + 3)
        else:
            s.set("IMR", s.load(sp, 1))
            f = s.load(sp + 1, 1)
            s.setcz(c=f & 1, z=(f >> 1) & 1)
            v = s.load(sp + 2, 3)
            if v > PTR_MASK:
                raise Unjudged("indirect_pointer_above_20_bits")
            s.pc = v
            s.set("S", sp + 5)
        return
    if mn in ("PUSHU", "PUSHS", "POPU", "POPS"):
        (a,) = ops
        name = a["name"]
        w = W[name]
        sreg = "U" if mn.endswith("U") else "S"
        sp = s.get(sreg)
        if mn.startswith("PUSH"):
            if sp - w < 0:
                raise Unjudged("pointer_wrap")
            v = s.get(name)
            s.set(sreg, sp - w)
            if name == "F":
                s._span(sp - w, 1, False)
                s.mwr(sp - w, v, mask=0x03)
            else:
                s.store(sp - w, w, v)
            if name == "IMR":
                s.set("IMR", v & 0x7F)
        else:
            if sp + w > PTR_MASK:
                raise Unjudged("pointer_wrap")
            v = s.load(sp, w)
            # X/Y hold 20 bits: the fourth nibble of the three bytes popped is dropped
            s.set(name, v & PTR_MASK if name in ("X", "Y") else v)
            s.set(sreg, sp + w)
            if name in ("U", "S"):
                raise Unjudged("pop_into_stack_pointer")
        return
    if mn in ("HALT", "OFF"):
        usr = s._peek(IMEM + 0xF8)
        s.mwr(IMEM + 0xF8, (usr & ~0x27 | 0x18) & 0xFF)
        ssr = s._peek(IMEM + 0xFF)
        s.mwr(IMEM + 0xFF, ssr | 0x04)
        s.dc.update(("C", "Z"))
        s.halted = True
        return
    if mn == "WAIT":
        s.set("I", 0)
        return
    if mn == "IR":
        sp = s.get("S")
        if sp - 5 < 0:
            raise Unjudged("pointer_wrap")
        if sp - 5 <= VEC_IRQ + 2 and sp - 1 >= VEC_IRQ:
            raise Unjudged("ir_push_overwrites_vector")
        imr = s.get("IMR")
        f = s.get("F")
        s.set("S", sp - 5)
        s.mwr(sp - 5, imr)
        s.mwr(sp - 4, f, mask=0x03)
        s.store(sp - 3, 3, (addr + length) & PTR_MASK)
        s.set("IMR", imr & 0x7F)
        v = s.load(VEC_IRQ, 3, "data")
        if v > PTR_MASK:
            raise Unjudged("indirect_pointer_above_20_bits")
        s.pc = v
        return
    if mn == "RESET":
        # README retention table. The table says "IMR (FCH)" (FC is ISR, IMR is FB): self-contradictory,
        # so both FB and FC are don't-care. Vector address and SSR bit 2 are not determined either.
        for off, fn in ((0xFE, lambda v: v & 0x7F), (0xF7, lambda v: 0), (0xF8, lambda v: (v & ~0x27 | 0x18) & 0xFF),
                        (0xFD, lambda v: 0)):
            s.mwr(IMEM + off, fn(s._peek(IMEM + off)))
        s.mwr(IMEM + 0xFF, s._peek(IMEM + 0xFF), mask=0xFB)
        s.mwr(IMEM + 0xFB, 0, mask=0x00)
        s.mwr(IMEM + 0xFC, 0, mask=0x00)
        s.optional_writes = {IMEM + 0xFB, IMEM + 0xFC, IMEM + 0xFF}
        for a in range(0xFFFFA, 0x100000):
            s.addr_reads.add(a)
        for off in (0xFE, 0xF7, 0xF8, 0xFD, 0xFF, 0xFB, 0xFC):
            s.addr_reads.add(IMEM + off)
        s.dc.add("PC")
        return
    raise Unjudged("mnemonic_not_in_reference:" + mn)


def _cond(s: Ref, cond: str) -> bool:
    if cond == "":
        return True
    if cond == "Z":
        return s.r["FZ"] == 1
    if cond == "NZ":
        return s.r["FZ"] == 0
    if cond == "C":
        return s.r["FC"] == 1
    if cond == "NC":
        return s.r["FC"] == 0
    raise ValueError(cond)
