"""Seeded program generator + Python/Rust lockstep runner (C06, C07, C18)."""
from __future__ import annotations

from . import states, tok
from .enc import PREFIXES

EXCLUDED = set(range(0x01, 0x08)) | set(range(0x10, 0x20)) | {0xDE, 0xDF, 0xFE, 0xFF, 0x20, 0xBF, 0xEF, 0xCE}
IMEM = 0x100000


KNOWN_DIVERGENT = {0x2E, 0x4F, 0x3E, 0x5F, 0x44, 0x45, 0x46, 0x4C, 0x4D, 0x4E, 0xD6, 0xD7,
                   0xC4, 0xC5, 0xD4, 0xD5, 0xE3, 0xEB, 0x11}


def gen_instr(r, dec, addr, clean=False):
    """One random accepted non-control-flow instruction (bytes) whose operands stay in safe windows."""
    for _ in range(50):
        pfx = r.choice(PREFIXES) if r.random() < 0.4 else None
        op = r.randrange(256)
        if op in EXCLUDED or (0x21 <= op <= 0x27) or (0x30 <= op <= 0x37):
            continue
        if clean and op in KNOWN_DIVERGENT:
            continue
        b2 = r.choice((0x04, 0x05, 0x06, 0x24, 0x25, 0x34, 0x35, 0x84, 0xC5, 0x00, 0x80, 0xC0, 0x02, 0x23,
                       r.randrange(256)))
        tail = bytes(r.randrange(0x08, 0x60) for _ in range(5))
        buf = bytes(([pfx] if pfx is not None else []) + [op, b2]) + tail
        ins = dec(buf, addr)
        if ins is None:
            continue
        name = ins.name()
        if name in ("PUSHS", "POPS"):
            continue
        if clean and states._dontcare(ins):
            from sc62015.pysc62015.instr import encode
            stack = list(ins.operands_coding())
            while stack:
                o = stack.pop()
                if isinstance(getattr(o, "extra_hi", None), int):
                    o.extra_hi &= 0x0F
                for attr in ("reg", "imem", "imem1", "imem2", "mode_imm", "offset"):
                    sub = getattr(o, attr, None)
                    if sub is not None and hasattr(sub, "__dict__") and not isinstance(sub, str):
                        stack.append(sub)
            buf = bytes(encode(ins, addr)) + buf[ins.length():]
        if name in states.COUNTED:
            # keep block lengths small: load I first (MV I,k)
            return bytes([0x0B, r.randrange(1, 5), 0x00]) + buf[:ins.length()], name
        return buf[:ins.length()], name
    return bytes([0x00]), "NOP"


def gen_program(r, max_instr=40):
    dec = states._dec()
    clean = r.random() < 0.75   # avoid mechanisms already listed as known findings => deeper lockstep
    base = 0x17000 + r.randrange(0x100, 0x7000)   # mid address byte >= 0x71: unreachable by generated [lmn]
    code = bytearray()
    n = r.randrange(8, max_instr + 1)
    sub_addr_slots = []
    i = 0
    while i < n:
        roll = r.random()
        here = base + len(code)
        if roll < 0.08:
            # counted loop over a short body using an IMEM counter at (0x70 + k)
            cnt = 0x70 + r.randrange(8)
            k = r.randrange(1, 4)
            code += bytes([0x32, 0xCC, cnt, k])
            body = bytearray()
            for _ in range(r.randrange(1, 4)):
                b, _nm = gen_instr(r, dec, here, clean)
                body += b
            code += body
            code += bytes([0x32, 0x7D, cnt])
            off = len(body) + 3 + 2
            if off <= 0xFF:
                code += bytes([0x1B, off])   # JRNZ -off
            i += 3
        elif roll < 0.14:
            # CALL sub (patched later) ; sub: 1-3 instructions + RET
            sub_addr_slots.append(len(code) + 1)
            code += bytes([0x04, 0x00, 0x00])
            i += 1
        elif roll < 0.20:
            pairs = [bytes([0x28, 0x38]), bytes([0x2A, 0x3A]), bytes([0x2C, 0x3D]), bytes([0x2B, 0x39])]
            if not clean:
                pairs += [bytes([0x4F, 0x5F]), bytes([0x2E, 0x3E])]
            code += r.choice(pairs)
            i += 2
        elif roll < 0.26:
            # forward conditional jump over one instruction
            b, _nm = gen_instr(r, dec, here, clean)
            code += bytes([r.choice((0x18, 0x1A, 0x1C, 0x1E)), len(b)]) + b
            i += 2
        else:
            b, _nm = gen_instr(r, dec, here, clean)
            code += b
            i += 1
    code += bytes([0xDE])  # HALT terminates the run
    for slot in sub_addr_slots:
        sub = base + len(code)
        code[slot] = sub & 0xFF
        code[slot + 1] = (sub >> 8) & 0xFF
        for _ in range(r.randrange(1, 4)):
            b, _nm = gen_instr(r, dec, sub, clean)
            code += b
        code += bytes([0x06])
    code += bytes([0x00, 0x00, 0x00])
    bp, px, py = r.randrange(0x08, 0x40), r.randrange(0x08, 0x40), r.randrange(0x08, 0x40)
    mem = {IMEM + 0xEC: bp, IMEM + 0xED: px, IMEM + 0xEE: py}
    # every 3-byte group in low IMEM is a pointer into 0x6xxxx so that [(n)] forms stay in a data window
    for o in range(0, 0xE0):
        mem.setdefault(IMEM + o, [r.randrange(256), r.randrange(0x10, 0xF0), 0x06][o % 3])
    regs = {"BA": r.randrange(1 << 16), "I": r.choice((1, 2, 3)),
            "X": 0x20000 + r.randrange(0x400, 0xC00), "Y": 0x30000 + r.randrange(0x400, 0xC00),
            "U": 0x40000 + r.randrange(0x400, 0xC00), "S": 0x50000 + r.randrange(0x400, 0xC00),
            "FC": r.randrange(2), "FZ": r.randrange(2), "FHI": 0}
    return {"bytes": bytes(code).hex(), "addr": base, "regs": regs, "mem": {str(k): v for k, v in mem.items()},
            "flavour": "program", "len": len(code)}


def run_python(prog, nsteps, fill=None):
    """-> list of per-step records."""
    from . import pyexec
    from sc62015.pysc62015.emulator import RegisterName
    emu, mem, regs = pyexec.make_emu(prog, fill=fill)
    out = []
    for _ in range(nsteps):
        pc = regs.get(RegisterName.PC)
        mem.clear_logs()
        try:
            probe = emu.decode_instruction(pc)
            nm = probe.name()
            if nm.startswith("UNK_") or nm.startswith("???") or nm.startswith("PRE"):
                out.append({"invalid": nm, "at": pc})   # left the encodings the Python decoder accepts
                break
            mem.clear_logs()
            info = emu.execute_instruction(pc)
            length = info.instruction.length()
        except BaseException as e:  # noqa: BLE001
            out.append({"exc": f"{type(e).__name__}:{str(e)[:120]}", "at": pc})
            break
        w = {}
        for a, v in mem.writes:
            w[a] = v
        out.append({"at": pc, "len": length,
                    "regs": {n: regs.get(RegisterName[n]) for n in pyexec.ARCH_REGS},
                    "pc": regs.get(RegisterName.PC), "c": regs.get(RegisterName.FC), "z": regs.get(RegisterName.FZ),
                    "writes": w, "halted": bool(emu.state.halted)})
        if emu.state.halted:
            break
    return out, emu, mem


def diff_step(p, rs):
    fields = []
    det = {}
    if "exc" in p:
        return ["python_raises"], {"exc": p["exc"]}
    if "panic" in rs:
        return ["rust_panic"], {"panic": rs["panic"][:160]}
    if "err" in rs:
        return ["rust_err"], {"err": rs["err"]}
    if rs.get("len") != p["len"]:
        fields.append("len")
        det["len"] = (p["len"], rs.get("len"))
    for n in ("BA", "I", "X", "Y", "U", "S"):
        if p["regs"][n] != rs["regs"][n]:
            fields.append(n)
            det[n] = (p["regs"][n], rs["regs"][n])
    if (p["pc"] & 0xFFFFF) != (rs["pc"] & 0xFFFFF):
        fields.append("PC")
        det["PC"] = (p["pc"], rs["pc"])
    if p["c"] != (rs["f"] & 1):
        fields.append("C")
    if p["z"] != ((rs["f"] >> 1) & 1):
        fields.append("Z")
    if p["halted"] != (rs["power"] != "running"):
        fields.append("power")
    rw = {}
    for a, v in rs["writes"]:
        rw[a] = v
    if rw != p["writes"]:
        fields.append("mem")
        det["mem"] = {"py": {f"{a:06X}": v for a, v in list(p["writes"].items())[:6]},
                      "rs": {f"{a:06X}": v for a, v in list(rw.items())[:6]}}
    return fields, det


def lockstep_shard(res, r, n, nsteps=200):
    from . import rust, judge
    progs = [gen_program(r) for _ in range(n)]
    for lo in range(0, len(progs), 100):
        chunk = progs[lo:lo + 100]
        rr = rust.run("exec", [dict(p, id=i, steps=nsteps) for i, p in enumerate(chunk)])
        for prog, rres in zip(chunk, rr):
            ptrace, emu, mem = run_python(prog, nsteps)
            res.evaluations += 1
            res.monitor("differential_lockstep")
            res.nontrivial("prog", prog["bytes"][:64], prog["addr"])
            res.count("lockstep_steps_compared", min(len(ptrace), len(rres["steps"])))
            div = None
            left_valid = False
            for i, (p, rs) in enumerate(zip(ptrace, rres["steps"])):
                if "invalid" in p:
                    left_valid = True
                    res.count("programs_left_python_accepted_encodings")
                    break
                fields, det = diff_step(p, rs)
                if fields:
                    div = (i, p, fields, det)
                    break
            if div is None and not left_valid and len(ptrace) != len(rres["steps"]):
                div = (min(len(ptrace), len(rres["steps"])), ptrace[-1] if ptrace else {}, ["step_count"],
                       {"py": len(ptrace), "rs": len(rres["steps"])})
            if div is None:
                res.count("programs_in_lockstep")
                if len(res.samples) < 2:
                    res.sample({"program": prog["bytes"][:80], "addr": prog["addr"], "steps": len(ptrace)})
                continue
            i, p, fields, det = div
            at = p.get("at", 0)
            # instruction bytes as they are in memory just before the diverging step
            _t, _e, mem_at = run_python(prog, i)
            ib = bytes(mem_at.peek(at + k) for k in range(8))
            opc, preb, mn, ops = None, None, "?", []
            dc_tags = []
            try:
                ins = states._dec()(bytes(ib) + b"\x00\x00", at)
                if ins is not None:
                    opc, preb = ins.opcode, ins._pre
                    mn, ops = tok.parse(ins.render())
                    dc_tags = states._dontcare(ins)
            except Exception:  # noqa: BLE001
                pass
            fake = {"preb": preb, "mn": mn, "regs": {"I": 0}}
            tags = [t for t in judge.case_tags(fake, ops)]
            # reconstruct the exact pre-state of the diverging step and classify it against the reference
            try:
                pre_trace, emu2, mem2 = run_python(prog, i)
                from sc62015.pysc62015.emulator import RegisterName
                from . import pyexec
                pregs = {n: emu2.regs.get(RegisterName[n]) for n in pyexec.ARCH_REGS}
                pregs.update(FC=emu2.regs.get(RegisterName.FC), FZ=emu2.regs.get(RegisterName.FZ), FHI=0)
                pcase = {"bytes": bytes(ib).hex(), "addr": at, "regs": pregs, "len": ins.length() if ins else 1,
                         "mem": {str(a): v for a, v in mem2.data.items()}, "opc": opc, "preb": preb, "mn": mn,
                         "dontcare": []}
                if pregs["I"] > 1 and mn in states.COUNTED:
                    tags.append("I>1")
                utags, _, _ = judge.undoc_tags(pcase, ins.render())
                tags += utags
            except Exception:  # noqa: BLE001
                pass
            if i > 0 and (rres["steps"][i - 1]["f"] & 0xFC):
                tags.append("fhi_nonzero")
            tags.append("program")
            tags += dc_tags
            sig = {"clause": "cores_disagree", "op": f"{opc:02X}" if opc is not None else "--",
                   "tags": sorted(tags), "fields": sorted(fields)}
            det.update({"step": i, "at": at, "instr": bytes(ib).hex(), "mn": mn})
            res.violation(sig, {"program": prog, "step": i}, det)
