"""Entry point: /venv/bin/python -m vt.run C01 --tier quick [--replay file]"""
import argparse
import os
import sys

from . import core


def main() -> int:
    ap = argparse.ArgumentParser()
    ap.add_argument("check")
    ap.add_argument("--tier", default=os.environ.get("VERIF_TIER", "quick"), choices=["quick", "thorough"])
    ap.add_argument("--seed", type=int, default=int(os.environ.get("VERIF_SEED", "0") or 0))
    ap.add_argument("--replay", default=None)
    a = ap.parse_args()
    return core.drive(a.check.lower(), a.tier, a.seed, a.replay)


if __name__ == "__main__":
    sys.exit(main())
