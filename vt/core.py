"""Shared runner: shards, verdicts, evidence, known findings, replay files.

A check module (vt/checks/cNN.py) exposes:

    PROPERTY = "C01"
    LEVEL = "exploration"
    RULE = "how cases are made and what distinct/non-trivial means"
    ASSUMPTIONS = [...]
    REQUIRED_MONITORS = ["name", ...]     # evaluation counters that must be > 0, else inconclusive
    def plan(tier, seed) -> list[dict]    # JSON-able shard specs
    def run_shard(spec) -> Result         # executed in a fresh subprocess
    def replay(case) -> list[violation]   # optional
    def finalize(merged, tier, seed)      # optional: add coverage keys / cross-shard checks

Verdicts: held -> exit 0; violated -> exit 1 + VIOLATION line; inconclusive -> exit 2.
"""
from __future__ import annotations

import hashlib
import importlib
import json
import os
import random
import subprocess
import sys
import time
from pathlib import Path
from typing import Any

ROOT = Path(__file__).resolve().parent.parent
WORK = ROOT / ".work"
# (the two overrides exist for tools/run_seeded.py, so that runs against a deliberately broken tree never touch the
#  evidence that the registered commands write)
EVIDENCE = Path(os.environ["VERIF_EVIDENCE_DIR"]) if os.environ.get("VERIF_EVIDENCE_DIR") else ROOT / "evidence"
REPLAYS = Path(os.environ["VERIF_REPLAY_DIR"]) if os.environ.get("VERIF_REPLAY_DIR") else ROOT / "replays"
KNOWN = ROOT / "known_findings.json"
PY = "/venv/bin/python"
NPROC = int(os.environ.get("VERIF_JOBS", "16"))


def rng(seed: int, *names: Any) -> random.Random:
    h = hashlib.sha256(("|".join(str(n) for n in (seed,) + names)).encode()).digest()
    return random.Random(int.from_bytes(h[:8], "little"))


def khash(*parts: Any) -> int:
    h = hashlib.blake2b(repr(parts).encode(), digest_size=8).digest()
    return int.from_bytes(h, "little")


class Result:
    """Accumulator returned by run_shard (and merged across shards)."""

    def __init__(self) -> None:
        self.evaluations = 0
        self.distinct: set[int] = set()
        self.counters: dict[str, int] = {}
        self.monitors: dict[str, int] = {}
        self.violations: list[dict] = []
        self.violation_count = 0
        self.samples: list[Any] = []
        self.tables: dict[str, dict[str, int]] = {}
        self.notes: list[str] = []
        self.inconclusive: list[str] = []

    def count(self, name: str, n: int = 1) -> None:
        self.counters[name] = self.counters.get(name, 0) + n

    def monitor(self, name: str, n: int = 1) -> None:
        self.monitors[name] = self.monitors.get(name, 0) + n

    def table(self, tname: str, key: Any, n: int = 1) -> None:
        t = self.tables.setdefault(tname, {})
        k = str(key)
        t[k] = t.get(k, 0) + n

    def nontrivial(self, *key: Any) -> None:
        self.distinct.add(khash(*key))

    def sample(self, s: Any, cap: int = 6) -> None:
        if len(self.samples) < cap:
            self.samples.append(s)

    def violation(self, sig: dict, case: Any, detail: Any = None, cap: int = 400) -> None:
        """sig: structural signature used for known-finding matching (small, JSON-able).
        case: concrete replayable input.  Only `cap` full records are retained per shard per sig."""
        self.violation_count += 1
        skey = json.dumps(sig, sort_keys=True)
        n = self.counters.get("viol:" + skey, 0)
        self.counters["viol:" + skey] = n + 1
        if n < 3 and len(self.violations) < cap:
            self.violations.append({"sig": sig, "case": case, "detail": detail})

    def to_json(self) -> dict:
        return {
            "evaluations": self.evaluations,
            "distinct": sorted(self.distinct),
            "counters": self.counters,
            "monitors": self.monitors,
            "violations": self.violations,
            "violation_count": self.violation_count,
            "samples": self.samples,
            "tables": self.tables,
            "notes": self.notes,
            "inconclusive": self.inconclusive,
        }

    def merge_json(self, d: dict) -> None:
        self.evaluations += d["evaluations"]
        self.distinct.update(d["distinct"])
        for k, v in d["counters"].items():
            self.counters[k] = self.counters.get(k, 0) + v
        for k, v in d["monitors"].items():
            self.monitors[k] = self.monitors.get(k, 0) + v
        self.violations.extend(d["violations"])
        self.violation_count += d["violation_count"]
        for s in d["samples"]:
            if len(self.samples) < 8:
                self.samples.append(s)
        for tn, t in d["tables"].items():
            mt = self.tables.setdefault(tn, {})
            for k, v in t.items():
                mt[k] = mt.get(k, 0) + v
        self.notes.extend(d["notes"])
        self.inconclusive.extend(d["inconclusive"])


# --------------------------------------------------------------------------------------
# known findings


def load_known(prop: str) -> list[dict]:
    if not KNOWN.exists():
        return []
    data = json.loads(KNOWN.read_text())
    return [e for e in data.get("findings", []) if e.get("property") == prop]


def _entry_applies(sig: dict, e: dict) -> bool:
    if e.get("status", "open") != "open":
        return False
    for k, allowed in e.get("match", {}).items():
        if k == "tags_all":
            if not set(allowed) <= set(sig.get("tags", [])):
                return False
            continue
        v = sig.get(k)
        if isinstance(allowed, list):
            if v not in allowed:
                return False
        elif v != allowed:
            return False
    return True


def match_known(sig: dict, entries: list[dict]) -> dict | None:
    """A violation is known iff some open entries' structural predicates hold for it and (subset rule)
    every field that went wrong is declared by at least one of those entries.  Entries without 'fields'
    cover violations that carry no 'fields'.  Returns the first applicable entry (for reporting)."""
    app = [e for e in entries if _entry_applies(sig, e)]
    if not app:
        return None
    f = sig.get("fields")
    if f is None:
        for e in app:
            if "fields" not in e:
                return e
        return None
    declared = set()
    unrestricted = False
    for e in app:
        if "fields" in e:
            declared |= set(e["fields"])
        else:
            unrestricted = True
    if unrestricted or set(f) <= declared:
        return app[0]
    return None


# --------------------------------------------------------------------------------------
# shard execution


def _worker_env() -> dict:
    env = dict(os.environ)
    env["FORCE_BINJA_MOCK"] = "1"
    env["PYTHONHASHSEED"] = env.get("VERIF_HASHSEED", "0")
    env["PYTHONDONTWRITEBYTECODE"] = "1"
    deps = str(ROOT / ".deps")
    env["PYTHONPATH"] = os.pathsep.join([str(ROOT), deps, env.get("VERIF_REPO", "/repo")])
    env.setdefault("BINJA_ESR_VERIF", "1")
    return env


def run_shards(modname: str, specs: list[dict], watchdog_s: float) -> tuple[Result, list[str]]:
    WORK.mkdir(exist_ok=True)
    tag = f"{modname}-{os.getpid()}"
    merged = Result()
    problems: list[str] = []
    pending = list(enumerate(specs))
    running: list[tuple[int, subprocess.Popen, Path, Path, float]] = []
    env = _worker_env()
    while pending or running:
        while pending and len(running) < NPROC:
            i, spec = pending.pop(0)
            sp = WORK / f"{tag}-{i}.spec.json"
            op = WORK / f"{tag}-{i}.out.json"
            sp.write_text(json.dumps(spec))
            # stderr goes to a FILE, not a pipe: code under test that logs a lot (e.g. one error line per failing lift) must
            # not block the worker on a full pipe and turn a violation into a watchdog timeout
            ep = WORK / f"{tag}-{i}.err"
            with open(ep, "wb") as ef:
                p = subprocess.Popen(
                    [PY, "-m", "vt.core", "--worker", modname, str(sp), str(op)],
                    cwd=str(ROOT), env=env, stdout=subprocess.DEVNULL, stderr=ef,
                )
            running.append((i, p, sp, op, time.time()))
        still = []
        for (i, p, sp, op, t0) in running:
            rc = p.poll()
            if rc is None:
                if time.time() - t0 > watchdog_s:
                    p.kill()
                    p.wait()
                    problems.append(f"shard {i}: wall-clock watchdog ({watchdog_s:.0f}s) fired")
                    (WORK / f"{tag}-{i}.err").unlink(missing_ok=True)
                    sp.unlink(missing_ok=True)
                    op.unlink(missing_ok=True)
                else:
                    still.append((i, p, sp, op, t0))
                continue
            ep = WORK / f"{tag}-{i}.err"
            try:
                with open(ep, "rb") as ef:
                    ef.seek(max(0, ep.stat().st_size - 4000))
                    err = ef.read().decode(errors="replace")
            except OSError:
                err = ""
            ep.unlink(missing_ok=True)
            if rc != 0 or not op.exists():
                problems.append(f"shard {i}: worker exit {rc}: {err[-1500:]}")
            else:
                merged.merge_json(json.loads(op.read_text()))
            sp.unlink(missing_ok=True)
            op.unlink(missing_ok=True)
        running = still
        if running:
            time.sleep(0.05)
    return merged, problems


def _worker_main(modname: str, spec_path: str, out_path: str) -> None:
    mod = importlib.import_module(f"vt.checks.{modname}")
    spec = json.loads(Path(spec_path).read_text())
    res = mod.run_shard(spec)
    Path(out_path).write_text(json.dumps(res.to_json()))


# --------------------------------------------------------------------------------------
# main driver


def write_evidence(prop: str, ev: dict) -> None:
    EVIDENCE.mkdir(parents=True, exist_ok=True)
    (EVIDENCE / f"{prop}.json").write_text(json.dumps(ev, indent=1, sort_keys=True) + "\n")


def drive(modname: str, tier: str, seed: int, replay_path: str | None = None) -> int:
    from . import repoenv

    t0 = time.time()
    if os.environ.get("VERIF_REPO"):
        sys.path.insert(0, os.environ["VERIF_REPO"])   # the tree under test also for anything the parent imports
    mod = importlib.import_module(f"vt.checks.{modname}")
    prop = mod.PROPERTY
    repoenv.ensure(getattr(mod, "NEEDS", ()))

    if replay_path:
        case = json.loads(Path(replay_path).read_text())
        env = _worker_env()
        os.environ.update({k: env[k] for k in ("FORCE_BINJA_MOCK", "PYTHONPATH")})
        sys.path[:0] = env["PYTHONPATH"].split(os.pathsep)
        vs = mod.replay(case["case"])
        for v in vs:
            print("REPLAY-VIOLATION", json.dumps(v, default=str)[:2000])
        print(f"replay: {len(vs)} violation(s)")
        return 1 if vs else 0

    specs = mod.plan(tier, seed)
    watchdog = getattr(mod, "WATCHDOG_S", {"quick": 900, "thorough": 7200})[tier]
    merged, problems = run_shards(modname, specs, watchdog)
    if hasattr(mod, "finalize"):
        mod.finalize(merged, tier, seed)

    known = load_known(prop)
    known_hits: dict[str, int] = {}
    fresh: list[dict] = []
    for v in merged.violations:
        e = match_known(v["sig"], known)
        if e is not None:
            known_hits[e["id"]] = known_hits.get(e["id"], 0) + 1
        else:
            fresh.append(v)
    # counts per signature (includes cases whose full record was not retained)
    sig_counts = {k[5:]: n for k, n in merged.counters.items() if k.startswith("viol:")}
    fresh_sigs = 0
    known_total = 0
    for skey, n in sig_counts.items():
        e = match_known(json.loads(skey), known)
        if e is None:
            fresh_sigs += n
        else:
            known_total += n
            known_hits[e["id"]] = max(known_hits.get(e["id"], 0), n)

    inconclusive = list(problems) + list(merged.inconclusive)
    for m in getattr(mod, "REQUIRED_MONITORS", []):
        if merged.monitors.get(m, 0) <= 0:
            inconclusive.append(f"monitor '{m}' was never evaluated")
    if merged.evaluations <= 0:
        inconclusive.append("no evaluations")

    replay_files: list[str] = []
    if (REPLAYS / prop).exists():
        for old in (REPLAYS / prop).glob(f"{tier}-s{seed}-*.json"):
            old.unlink()
    if fresh:
        d = REPLAYS / prop
        d.mkdir(parents=True, exist_ok=True)
        seen = set()
        for v in fresh:
            sk = json.dumps(v["sig"], sort_keys=True)
            if sk in seen:
                continue
            seen.add(sk)
            if len(replay_files) >= 40:
                break
            path = d / f"{tier}-s{seed}-{len(replay_files):03d}.json"
            path.write_text(json.dumps(v, indent=1, default=str))
            replay_files.append(str(path))

    for e in known:
        if e.get("status", "open") == "open" and e["id"] in known_hits:
            print(f"KNOWN-FINDING: property={prop} {e['id']}: {e['what']} "
                  f"[{known_hits[e['id']]} case(s) this run]")

    coverage = {
        "evaluations": merged.evaluations,
        "distinct_nontrivial": len(merged.distinct),
        "rule": mod.RULE,
        "samples": merged.samples[:8] or ["(none)"],
        "monitor_evaluations": merged.monitors,
        "counters": {k: v for k, v in sorted(merged.counters.items()) if not k.startswith("viol:")},
        "tables": {tn: dict(sorted(t.items())) for tn, t in merged.tables.items()},
        "shards": len(specs),
        "known_finding_cases": known_total,
        "known_findings_seen": sorted(known_hits),
        "fresh_violation_cases": fresh_sigs,
        "violation_signatures": len(sig_counts),
        "exhaustive": bool(getattr(mod, "EXHAUSTIVE", {}).get(tier, False)),
        "verdict": "violated" if fresh else ("inconclusive" if inconclusive else "held"),
        "inconclusive_reasons": inconclusive[:20],
        "notes": merged.notes[:40],
    }
    if getattr(mod, "LEVEL", "exploration") == "other":
        coverage["explanation"] = getattr(mod, "EXPLANATION", mod.RULE)
    for k, v in getattr(mod, "EXTRA_COVERAGE", {}).items():
        coverage[k] = v
    ev = {
        "property_id": prop,
        "tier": tier,
        "seed": seed,
        "level": getattr(mod, "LEVEL", "exploration"),
        "coverage": coverage,
        "assumptions": getattr(mod, "ASSUMPTIONS", []),
        "wall_s": round(time.time() - t0, 2),
        "violations": fresh_sigs,
    }
    write_evidence(prop, ev)

    print(f"{prop} {tier} seed={seed}: evaluations={merged.evaluations} "
          f"distinct_nontrivial={len(merged.distinct)} monitors={merged.monitors} "
          f"known_cases={known_total} fresh={fresh_sigs} wall={ev['wall_s']}s")
    if sig_counts and os.environ.get("VERIF_SIGS"):
        only_fresh = os.environ.get("VERIF_SIGS") == "fresh"
        for skey, n in sorted(sig_counts.items(), key=lambda kv: -kv[1])[:4000]:
            e = match_known(json.loads(skey), known)
            if only_fresh and e is not None:
                continue
            print(f"  sig[{'known:' + e['id'] if e else 'FRESH'}] x{n}: {skey}")
    if fresh:
        shown = set()
        for v in fresh[:12]:
            sk = json.dumps(v["sig"], sort_keys=True)
            if sk in shown:
                continue
            shown.add(sk)
            print("  fresh:", sk, "case:", json.dumps(v["case"], default=str)[:300],
                  "detail:", json.dumps(v["detail"], default=str)[:400])
        for p in replay_files[:1]:
            print(f"VIOLATION property={prop} replay={p}")
        return 1
    if inconclusive:
        for r in inconclusive[:10]:
            print("INCONCLUSIVE:", r[:600])
        return 2
    return 0


if __name__ == "__main__":
    if len(sys.argv) >= 5 and sys.argv[1] == "--worker":
        _worker_main(sys.argv[2], sys.argv[3], sys.argv[4])
    else:
        sys.exit("usage: python -m vt.run <check> --tier quick|thorough")
