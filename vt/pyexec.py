"""Run one instruction on the real Python Emulator under logging memory + logging registers."""
from __future__ import annotations

from .pyside import FlatMem
from sc62015.pysc62015.emulator import Emulator, Registers, RegisterName

ARCH_REGS = ("BA", "I", "X", "Y", "U", "S")
FETCH_SPAN = 16


class LogRegs(Registers):
    def __init__(self):
        super().__init__()
        self.rlog: list[str] = []
        self.wlog: list[str] = []
        self.uninit_temp_reads: list[str] = []
        self._temp_written: set[str] = set()
        self.logging = False

    def get(self, reg):
        if self.logging:
            n = reg.name
            self.rlog.append(n)
            if n.startswith("TEMP") and n not in self._temp_written:
                self.uninit_temp_reads.append(n)
        return super().get(reg)

    def set(self, reg, value):
        if self.logging:
            n = reg.name
            self.wlog.append(n)
            if n.startswith("TEMP"):
                self._temp_written.add(n)
        super().set(reg, value)


def make_emu(case, temps=None, log=True, fill=None):
    mem = FlatMem({int(k): v for k, v in case.get("mem", {}).items()}, log=log,
                  **({"fill": fill} if fill is not None else {}))
    mem.load_bytes(case["addr"], bytes.fromhex(case["bytes"]))
    emu = Emulator(mem, reset_on_init=False)
    regs = LogRegs()
    emu.regs = regs
    r = case["regs"]
    for n in ARCH_REGS:
        regs.set(RegisterName[n], r[n])
    regs.set(RegisterName.FC, r["FC"])
    regs.set(RegisterName.FZ, r["FZ"])
    regs.set(RegisterName.F, (r.get("FHI", 0) & 0xFC) | r["FC"] | (r["FZ"] << 1))
    if temps:
        for i, v in temps.items():
            regs.set(RegisterName[f"TEMP{i}"], v)
    regs.set(RegisterName.PC, case["addr"])
    return emu, mem, regs


def run_case(case, temps=None):
    """-> observation dict (or {'exc': ...})."""
    emu, mem, regs = make_emu(case, temps)
    addr = case["addr"]
    try:
        ins = emu.decode_instruction(addr)
        tokens = ins.render()
        length = ins.length()
        name = ins.name()
    except BaseException as e:  # noqa: BLE001
        return {"exc": f"decode:{type(e).__name__}:{str(e)[:160]}"}
    mem.clear_logs()
    regs.logging = True
    try:
        emu.execute_instruction(addr)
    except BaseException as e:  # noqa: BLE001
        regs.logging = False
        return {"exc": f"execute:{type(e).__name__}:{str(e)[:160]}", "tokens": tokens, "length": length,
                "name": name}
    regs.logging = False
    lo, hi = addr, addr + FETCH_SPAN
    data_reads = [a for a in mem.reads if not (lo <= a < hi)]
    out = {
        "tokens": tokens, "length": length, "name": name,
        "regs": {n: regs.get(RegisterName[n]) for n in ARCH_REGS},
        "PC": regs.get(RegisterName.PC), "FC": regs.get(RegisterName.FC), "FZ": regs.get(RegisterName.FZ),
        "F": regs.get(RegisterName.F),
        "reads": data_reads, "writes": list(mem.writes),
        "final": {a: mem.peek(a) for a, _ in mem.writes},
        "reg_reads": regs.rlog, "reg_writes": regs.wlog, "uninit_temp_reads": regs.uninit_temp_reads,
        "halted": bool(emu.state.halted), "mem": mem,
    }
    return out
