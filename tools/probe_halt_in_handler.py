import sys, os, json
sys.path.insert(0,'/verif'); os.environ['FORCE_BINJA_MOCK']='1'
from vt import machine, repoenv
repoenv.ensure(("rust","deps"))
from vt.checks import c12
c12.BODIES["ack_then_halt"]=bytes([0x32,0xCC,0xFC,0x00,0xDE])
scen=c12.scenario("busy","ack_then_halt",0x8F,{"enabled":True,"mti":5,"sti":0})
script=c12.build_script(40,{20:("on",1),24:("on",0)})
kc=c12.key_codes()
robs=machine.run_rust([(scen,script)],kc)[0][0]
pobs=machine.PyMachine(scen).run(script)
for name,obs in (("rs",robs),("py",pobs)):
    print(name)
    for i,o in enumerate(obs):
        print(i, hex(o["pc"]), hex(o["S"]), "imr=%02X isr=%02X"%(o["imr"],o["isr"]), o["power"], "in_irq",o["in_irq"], "tot",o["irq_total"], "op=%02X"%o["opcode"])
