#!/usr/bin/env python3
"""Re-confirm a sub-agent's seeded change in a fresh scratch worktree and store it under /verif/seeded/<id>/.

usage: tools/confirm_seeded.py <agent_out_dir> <seeded-id> <property> --summary "..." --needs "..." [--checks c03,c04]
                               [--rust]   (patch touches Rust: suite + demo still run; compile is checked later via /repo)
Steps (all in /tmp/seedwt/<id>, removed afterwards):
  1. clean worktree of /repo HEAD: demo must PASS (exit 0)
  2. git apply patch.diff: pinned suite must give the baseline numbers and failing set; demo must FAIL (exit != 0)
"""
from __future__ import annotations

import argparse
import json
import os
import pathlib
import re
import shutil
import subprocess
import sys

ROOT = pathlib.Path(__file__).resolve().parent.parent
SUITE = "/venv/bin/python -m pytest -ra -q -p no:cacheprovider --timeout=900 --continue-on-collection-errors"


def sh(cmd, cwd=None, timeout=3600, env=None):
    return subprocess.run(cmd, shell=True, text=True, capture_output=True, cwd=cwd, timeout=timeout, env=env)


def suite(wt):
    env = dict(os.environ)
    env.pop("FORCE_BINJA_MOCK", None)
    p = sh(SUITE, cwd=wt, env=env)
    tail = p.stdout.strip().splitlines()[-1] if p.stdout.strip() else ""
    tail = re.sub(r" in [0-9.]+s.*$", "", tail)
    failed = sorted(set(re.findall(r"^FAILED (\S+)", p.stdout, re.M)))
    return tail, failed


def demo(wt, name):
    env = dict(os.environ, FORCE_BINJA_MOCK="1", WT_ROOT=wt, PYTHONPATH=wt)
    p = sh(f"/venv/bin/python {name}", cwd=wt, env=env, timeout=1800)
    return p.returncode, (p.stdout + p.stderr)[-600:]


def make_kit(wt, kit):
    """Rust demo kit: a bin crate depending on the real sc62015_core sources of worktree `wt` (shim manifest, vendored crates)."""
    os.makedirs(f"{kit}/core-shim", exist_ok=True)
    os.makedirs(f"{kit}/demo/src", exist_ok=True)
    os.makedirs(f"{kit}/demo/.cargo", exist_ok=True)
    shim = (ROOT / "rust/core-shim/Cargo.toml").read_text().replace("/repo/sc62015/core/src/lib.rs", f"{wt}/sc62015/core/src/lib.rs")
    pathlib.Path(f"{kit}/core-shim/Cargo.toml").write_text(shim)
    for n in ("vendor", "zipshim"):
        if not os.path.exists(f"{kit}/{n}"):
            os.symlink(ROOT / "rust" / n, f"{kit}/{n}")
    shutil.copy(ROOT / "rust/harness/.cargo/config.toml", f"{kit}/demo/.cargo/config.toml")
    pathlib.Path(f"{kit}/demo/Cargo.toml").write_text(
        '[package]\nname = "demo"\nversion = "0.1.0"\nedition = "2021"\n\n[[bin]]\nname = "demo"\npath = "src/main.rs"\n\n'
        '[dependencies]\nsc62015-core = { path = "../core-shim" }\nserde = { version = "1.0", features = ["derive"] }\n'
        'serde_json = "1.0"\n\n[profile.dev]\nopt-level = 1\noverflow-checks = true\ndebug-assertions = true\n')


def rust_demo(kit, src_rs):
    shutil.copy(src_rs, f"{kit}/demo/src/main.rs")
    b = sh("cargo build --offline 2>&1 | tail -30", cwd=f"{kit}/demo", timeout=1800)
    if not os.path.exists(f"{kit}/demo/target/debug/demo") or "error" in b.stdout and "could not compile" in b.stdout:
        return 99, "BUILD FAILED: " + b.stdout[-500:]
    p = sh("./target/debug/demo", cwd=f"{kit}/demo", timeout=1800)
    return p.returncode, (p.stdout + p.stderr)[-600:]


def main():
    ap = argparse.ArgumentParser()
    ap.add_argument("src")
    ap.add_argument("sid")
    ap.add_argument("prop")
    ap.add_argument("--summary", required=True)
    ap.add_argument("--needs", required=True)
    ap.add_argument("--checks", default=None)
    ap.add_argument("--rust", action="store_true")
    ap.add_argument("--demo", default="demo.py")
    a = ap.parse_args()
    src = pathlib.Path(a.src)
    wt = f"/tmp/seedwt/{a.sid}"
    os.makedirs("/tmp/seedwt", exist_ok=True)
    sh(f"git -C /repo worktree remove --force {wt}")
    r = sh(f"git -C /repo worktree add --detach {wt} HEAD")
    if r.returncode:
        print(r.stderr)
        return 2
    rec = {}
    try:
        rel = f"_out/{src.name}"
        os.makedirs(f"{wt}/_out", exist_ok=True)
        shutil.copytree(src, f"{wt}/{rel}")
        has_demo = (src / a.demo).exists() and a.demo.endswith(".py")
        rs_demo = (src / "demo.rs").exists() and not has_demo
        kit = f"/tmp/seedwt/{a.sid}-kit"
        if rs_demo:
            make_kit(wt, kit)
        base_tail, base_failed = suite(wt)
        rec["suite_clean"] = base_tail
        if has_demo:
            rc, out = demo(wt, f"{rel}/{a.demo}")
            rec["demo_clean"] = {"exit": rc, "tail": out[-200:]}
        if rs_demo:
            rc, out = rust_demo(kit, src / "demo.rs")
            rec["demo_clean"] = {"exit": rc, "tail": out[-200:]}
        r = sh(f"git apply --recount {rel}/patch.diff", cwd=wt)
        if r.returncode:
            print("patch does not apply", r.stderr)
            return 2
        tail, failed = suite(wt)
        rec["suite_with_change"] = tail
        rec["same_failing_set"] = failed == base_failed
        if has_demo:
            rc, out = demo(wt, f"{rel}/{a.demo}")
            rec["demo_with_change"] = {"exit": rc, "tail": out[-200:]}
        if rs_demo:
            sh("rm -f target/debug/demo", cwd=f"{kit}/demo")
            rc, out = rust_demo(kit, src / "demo.rs")
            rec["demo_with_change"] = {"exit": rc, "tail": out[-200:]}
    finally:
        sh(f"git -C /repo worktree remove --force {wt}")
        shutil.rmtree(f"/tmp/seedwt/{a.sid}-kit", ignore_errors=True)
    ok = rec.get("same_failing_set") and rec["suite_with_change"] == rec["suite_clean"]
    if has_demo or rs_demo:
        ok = ok and rec["demo_clean"]["exit"] == 0 and rec["demo_with_change"]["exit"] not in (0, 99)
    print(json.dumps(rec, indent=1))
    if not ok:
        print("NOT CONFIRMED")
        return 1
    dst = ROOT / "seeded" / a.sid
    dst.mkdir(parents=True, exist_ok=True)
    for f in src.iterdir():
        if f.is_file() and f.stat().st_size < 200_000 and not f.name.startswith("suite_"):
            shutil.copy(f, dst / f.name)
    meta = {"id": a.sid, "property": a.prop, "summary": a.summary, "needs": a.needs,
            "checks": (a.checks.split(",") if a.checks else [a.prop.lower()]), "touches_rust": bool(a.rust) or rs_demo,
            "source": "fresh sub-agent given only the property text and a scratch worktree",
            "confirmed_here": rec,
            "ran": [SUITE + "  (clean and with the change, same numbers and failing set)",
                    f"FORCE_BINJA_MOCK=1 /venv/bin/python {a.demo}  (exit 0 clean, non-zero with the change)" if has_demo else
                    ("demo.rs built against the worktree's crate through a shim manifest (exit 0 clean, non-zero with the change)" if rs_demo
                     else "demo is descriptive")]}
    (dst / "meta.json").write_text(json.dumps(meta, indent=1) + "\n")
    print("CONFIRMED ->", dst)
    return 0


if __name__ == "__main__":
    sys.exit(main())
