#!/usr/bin/env python3
"""Regenerate the machine-written parts of DESIGN.md (between <!-- BEGIN x --> / <!-- END x --> markers):
known findings, fixed defects, seeded-change catch table."""
import json
import pathlib
import re

ROOT = pathlib.Path(__file__).resolve().parent.parent


def findings_tables():
    d = json.loads((ROOT / "known_findings.json").read_text())["findings"]
    open_rows = ["| Property | Id | What fails (identified by mechanism, not by case) |", "| --- | --- | --- |"]
    fixed_rows = ["| Property | Id | Repo commit | What failed |", "| --- | --- | --- | --- |"]
    for e in sorted(d, key=lambda e: (e["property"], e["id"])):
        what = e["what"].replace("|", "\\|").replace("\n", " ")
        if e.get("status") == "fixed":
            what = re.sub(r"^fixed: property=\S+ \S+ ", "", what)
            fixed_rows.append(f"| {e['property']} | `{e['id']}` | `{e.get('commit', '')}` | {what} |")
        else:
            open_rows.append(f"| {e['property']} | `{e['id']}` | {what} |")
    return "\n".join(open_rows), "\n".join(fixed_rows)


def seeded_table():
    rows = ["| Seeded change | Breaks | Needs, to manifest | Caught by (quick tier unless noted) | First signature |",
            "| --- | --- | --- | --- | --- |"]
    sd = ROOT / "seeded"
    if not sd.exists():
        return "\n".join(rows)
    for d in sorted(sd.iterdir()):
        m = d / "meta.json"
        if not m.exists():
            continue
        meta = json.loads(m.read_text())
        res = {}
        if (d / "result.json").exists():
            res = json.loads((d / "result.json").read_text()).get("results", {})
        caught = [c.upper() for c, r in res.items() if r.get("exit") == 1 and r.get("violation_lines")]
        missed = [c.upper() for c, r in res.items() if not (r.get("exit") == 1 and r.get("violation_lines"))]
        sig = ""
        for c, r in res.items():
            if r.get("fresh_sigs"):
                sig = re.sub(r"^sig\[FRESH\] x\d+: ", "", r["fresh_sigs"][0])[:140].replace("|", "\\|")
                break
        note = meta.get("caught_note", "")
        rows.append(f"| `{d.name}` {meta.get('summary', '')[:150].replace('|', '/')} | {meta['property']} | "
                    f"{meta.get('needs', '')[:160].replace('|', '/')} | "
                    f"{', '.join(caught) or '—'}{(' (not by ' + ', '.join(missed) + ')') if missed and caught else ''}"
                    f"{' **missed**' if not caught else ''} {note} | `{sig}` |")
    return "\n".join(rows)


def main():
    p = ROOT / "DESIGN.md"
    s = p.read_text()
    o, f = findings_tables()
    for name, body in (("open-findings", o), ("fixed-defects", f), ("seeded-table", seeded_table())):
        pat = re.compile(rf"(<!-- BEGIN {name} -->\n).*?(<!-- END {name} -->)", re.S)
        if pat.search(s):
            s = pat.sub(lambda m: m.group(1) + body + "\n" + m.group(2), s)
    p.write_text(s)
    print("DESIGN.md tables regenerated")


if __name__ == "__main__":
    main()
