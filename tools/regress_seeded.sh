#!/bin/bash
# usage: tools/regress_seeded.sh C16 C12 ...   re-runs every stored seeded change of the named properties against its own
# property's current quick check (5 in parallel, scratch worktrees); results in .work/regress/<id>.log and seeded/<id>/result.json
cd /verif
mkdir -p .work/regress
for pref in "$@"; do ls seeded | grep "^$pref-"; done | while read sid; do [ -f .work/regress/$sid.log ] && grep -q "CAUGHT\|missed" .work/regress/$sid.log && continue; echo $sid; done | tr '\n' '\0' | xargs -0 -P 5 -I{} bash -c 'sid="{}"; prop=$(python3 -c "import json;print(json.load(open(\"/verif/seeded/$sid/meta.json\"))[\"property\"].lower())"); python3 tools/run_seeded.py "$sid" --checks $prop > .work/regress/$sid.log 2>&1; grep -E "CAUGHT|missed|refusing|does not apply|cannot" .work/regress/$sid.log | head -2'
