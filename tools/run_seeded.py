#!/usr/bin/env python3
"""Apply one seeded change from /verif/seeded/<id>/patch.diff to /repo, run the named checks, undo, report.

usage: tools/run_seeded.py <seeded-id> [--tier quick] [--checks c03,c04] [--seed N]
Refuses to run when /repo has uncommitted changes. The change is ALWAYS reverted (git checkout -- .) afterwards.
Writes /verif/seeded/<id>/result.json  {check: {exit, violation_lines, fresh_sigs}}.
"""
from __future__ import annotations

import argparse
import json
import os
import pathlib
import subprocess
import sys

ROOT = pathlib.Path(__file__).resolve().parent.parent
REPO = "/repo"


def sh(cmd, **kw):
    return subprocess.run(cmd, shell=True, text=True, capture_output=True, **kw)


def main():
    ap = argparse.ArgumentParser()
    ap.add_argument("sid")
    ap.add_argument("--tier", default="quick")
    ap.add_argument("--checks", default=None)
    ap.add_argument("--seed", default="0")
    a = ap.parse_args()
    d = ROOT / "seeded" / a.sid
    meta = json.loads((d / "meta.json").read_text())
    checks = (a.checks.split(",") if a.checks else meta.get("checks") or [meta["property"].lower()])
    # Python-only changes run against a scratch worktree selected with VERIF_REPO (the Rust shim still compiles /repo,
    # which such a change does not touch); changes to Rust sources must be applied to /repo itself (shim path).
    use_wt = True   # Rust changes too: repoenv builds an alternate shim/target for VERIF_REPO != /repo
    target = f"/tmp/seedrun/{a.sid}" if use_wt else REPO
    if use_wt:
        os.makedirs("/tmp/seedrun", exist_ok=True)
        sh(f"git -C {REPO} worktree remove --force {target}")
        if sh(f"git -C {REPO} worktree add --detach {target} HEAD").returncode:
            print("cannot create worktree", file=sys.stderr)
            return 3
    elif sh(f"git -C {REPO} status --porcelain").stdout.strip():
        print("refusing: /repo has uncommitted changes", file=sys.stderr)
        return 3
    r = sh(f"git -C {target} apply --recount {d / 'patch.diff'}")
    if r.returncode != 0:
        print("patch does not apply:", r.stderr, file=sys.stderr)
        if use_wt:
            sh(f"git -C {REPO} worktree remove --force {target}")
        return 3
    out = {}
    try:
        env = dict(os.environ, VERIF_SIGS="fresh", VERIF_SEED=str(a.seed), VERIF_REPO=target,
                   VERIF_EVIDENCE_DIR=str(ROOT / ".work" / "seeded-evidence" / a.sid),
                   VERIF_REPLAY_DIR=str(ROOT / ".work" / "seeded-replays" / a.sid))
        for c in checks:
            p = sh(f"cd {ROOT} && /venv/bin/python -m vt.run {c} --tier {a.tier}", env=env, timeout=7200)
            lines = p.stdout.splitlines()
            viol = [l for l in lines if l.startswith("VIOLATION")]
            sigs = [l.strip()[:300] for l in lines if l.strip().startswith("sig[FRESH")]
            out[c] = {"exit": p.returncode, "violation_lines": viol, "fresh_sigs": sigs[:8],
                      "summary": next((l[:300] for l in lines if l.startswith(c.upper())), "")}
            print(f"{a.sid} {c} {a.tier}: exit={p.returncode} {'CAUGHT' if p.returncode == 1 and viol else 'missed'}")
            for s in sigs[:4]:
                print("   ", s[:220])
    finally:
        if use_wt:
            sh(f"git -C {REPO} worktree remove --force {target}")
            import hashlib
            import shutil
            shutil.rmtree(ROOT / ".work" / "rust-alt" / hashlib.sha1(target.encode()).hexdigest()[:12], ignore_errors=True)
        else:
            sh(f"git -C {REPO} checkout -- .")
    prev = {}
    if (d / "result.json").exists():
        try:
            prev = json.loads((d / "result.json").read_text()).get("results", {})
        except Exception:  # noqa: BLE001
            prev = {}
    prev.update(out)    # merge: running a subset of checks keeps the earlier results of the others
    (d / "result.json").write_text(json.dumps({"tier": a.tier, "seed": a.seed, "results": prev}, indent=1) + "\n")
    return 0


if __name__ == "__main__":
    sys.exit(main())
