#!/bin/bash
# stop the seeded regression pass (patterns live in this file, not on the command line, so the caller is not matched)
me=$$
for pat in "tools/run_seeded.py" "work/regress.sh" "xargs -0 -P"; do
  for p in $(pgrep -f "$pat"); do [ "$p" != "$me" ] && kill "$p" 2>/dev/null; done
done
sleep 2
for p in $(pgrep -f "VERIF_REPO=/tmp/seedrun"); do kill "$p" 2>/dev/null; done
for p in $(pgrep -f "vt.core --worker"); do kill "$p" 2>/dev/null; done
for p in $(pgrep -f "vt.run c"); do kill "$p" 2>/dev/null; done
sleep 2
git -C /repo worktree prune
for d in /tmp/seedrun/*; do [ -d "$d" ] && git -C /repo worktree remove --force "$d" 2>/dev/null; done
echo "left: $(ls /tmp/seedrun 2>/dev/null | wc -l) worktrees"
