#!/usr/bin/env python3
"""Regenerates /verif/MANIFEST.json from the table below (single source of truth)."""
import json
from pathlib import Path

ROOT = Path(__file__).resolve().parent.parent

CHECKS = {
    # id: (category, technique, level text, level note, design_ref)
    "C01": ("exploration",
            "runtime monitor over enumerated encodings: 4 real decode consumers cross-checked, metamorphic trailing-byte/truncation/history oracles, template-fingerprint invariant",
            "Held on every (prefix x opcode x second byte) head explored (thorough: the complete 1.1M structural space) with sampled payload bytes; each head decoded by get_instruction_info/text/low_level_il and Emulator.decode_instruction, re-decoded after mutations of trailing bytes, after truncation and after other decodes. Not a proof: payload bytes are sampled.",
            "Trusts binja_test_mocks as the Binary Ninja stand-in; payload bytes beyond the second byte are sampled.",
            "DESIGN.md 3/C01"),
    "C02": ("exploration",
            "runtime round-trip monitor on the real decode/encode and the arch text guard over enumerated encodings + don't-care bit sweeps",
            "Held on every accepted structural head explored plus complete sweeps of selector bytes and ignored high nibbles: encode(decode(b)) reproduces the consumed bytes, the re-decoded instruction has the same tokens, length and IL, and get_instruction_text never demotes an accepted encoding.",
            "Pure equality on the code's own functions; payload bytes sampled.", "DESIGN.md 3/C02"),
    "C03": ("exploration",
            "execution monitor: logging memory + logging register file around Emulator.execute_instruction, access sets compared with a README-derived addressing oracle fed by the rendered token stream",
            "Held (modulo listed known findings) on every accepted head executed in states that make every addressing base distinguishable: write set, data-read set and pointer side effects equal what the text denotes. Undetermined cases are counted as unjudged.",
            "Trusts vt/tok.py + vt/refisa.py (README transcription) and binja_test_mocks' IL evaluator.", "DESIGN.md 3/C03"),
    "C04": ("exploration",
            "execution monitor against a README reference interpreter: complete post-state comparison incl. frame condition, exhaustive 8-bit operation tables",
            "Held (modulo listed known findings) on complete 2^17 operand tables per 8-bit operation (thorough), all unary tables, valid-BCD tables, every encoding with planted boundary operands, counted forms for I up to 255: result, C, Z, pointer/counter/stack effects equal the README and nothing else changes.",
            "Trusts vt/refisa.py; README-undetermined outputs are don't-care and listed in the evidence.", "DESIGN.md 3/C04"),
    "C05": ("exploration",
            "execution monitor: InstructionInfo.branches from the real get_instruction_info compared with the PC observed on the real Emulator under all flag values; inverse-pair programs",
            "Held on all branch/call/return opcodes x prefixes x a page-boundary address grid x operand boundaries x 4 flag values, on the fall-through clause over every accepted head, and on generated CALL/RET, CALLF/RETF, IR/RETI programs with random stack-neutral bodies.",
            "binja_test_mocks stands in for Binary Ninja; IR vector planted in flat memory.", "DESIGN.md 3/C05"),
    "C06": ("exploration",
            "differential execution monitor: real Python Emulator vs real Rust LlamaExecutor (client harness binary) on identical flat memories, single instructions and lockstep programs; Rust overflow/debug-assert panics caught per case",
            "Held (modulo mechanism-keyed known findings) on every Python-accepted structural head x {distinguishing, boundary, random} states and on seeded programs compared after every step. Known findings are matched by mechanism predicate + field-subset, so any other disagreement is a fresh violation.",
            "Python and Rust run in separate processes connected by JSONL vectors; flat device-free buses; F bits 2-7 and TEMPs not compared.", "DESIGN.md 3/C06"),
    "C07": ("exploration",
            "hidden-state differential monitors on both real cores (fresh vs long-lived core with poisoned TEMPs / call bookkeeping / perf counters / a low-power flag left by earlier HALT), same-address twin re-execution (last instruction byte changed) against decode caches, read-before-write taint monitor on the register file, split-run comparison, 8-thread stress of the Rust process-wide statics, two-process digest comparison",
            "Held on every sampled head executed after an arbitrary history of earlier cases with poisoned hidden state, on programs run continuously vs through CPUStepper snapshots (Python) and vs executor/state rebuilt from architectural registers every 1/3/7 steps (Rust), on 8 concurrent Rust runtimes with yield injection, and across two fresh processes with different hash seeds.",
            "Architectural outputs only; the Rust ASan/TSan/Miri runtimes are not available offline, so the thread stress is an oracle over results, not a race detector.", "DESIGN.md 3/C07"),
    "C08": ("exploration",
            "reference-model monitor after every write on the real Python Registers, Rust LlamaState and CoreRuntime named API; icontract postcondition in the path of Registers.set; snapshot/blob round-trip and cross-exchange",
            "Held on the complete ordered-pair enumeration (14 names x 14 names x 10 x 10 boundary values) and on seeded sequences up to 64 writes with interleaved snapshot->apply round trips and Python<->Rust register-blob exchange; all 14 readable names compared after every write.",
            "Reference register file is the property statement; TEMPs and IMR out of scope.", "DESIGN.md 3/C08"),
    "C09": ("exploration",
            "round-trip monitor: rendered token stream -> assembler text -> real Assembler -> real decoder, compared on text/length/IL, second round fixed point",
            "Held (modulo mechanism-keyed known findings) on one case per distinct text shape the disassembler can produce (quick: capped per shard; thorough: all shapes x 6 operand variants incl. IMEM-name collisions).",
            "Equivalence judged by the disassembler's own text and the lifter's own IL; ignored bits need not survive.", "DESIGN.md 3/C09"),
    "C10": ("exploration",
            "wrapped pass-1/pass-2 hooks on the real Assembler + independent layout walk + per-statement metamorphic oracle + statelessness/determinism monitors over grammar-generated programs",
            "Held (modulo listed findings) on seeded programs of 5-60 lines covering labels, sections, .ORG, all data directives and symbolic operands, and on all 2-statement combinations of construct classes: pass-1 sizes == pass-2 bytes, statement addresses and label values == independent walk, image == standalone statements, deterministic and history-free, page rule enforced.",
            "Well-formedness is by construction of the generator; rejections of admitted constructs are keyed by construct.", "DESIGN.md 3/C10"),
    "C11": ("exploration",
            "PC-E500 loader probes (ROM window / system image of several lengths, stores of every width into ROM/vectors/no-RAM window), wide internal stores vs byte stores through the CPU bus, reference byte-store monitor + conservation diff of every backing array after each store + alias/twin probes + wide-vs-byte metamorphic oracle on the real PCE500Memory and MemoryImage; CPU-facing Rust bus through CoreRuntime::step",
            "Held (modulo listed findings) on every memory configuration x seeded histories of 8/16/24-bit accesses concentrated on region boundaries and 32-bit aliases: reads equal the last write (RAM) or the image (ROM/read-only/absent), stores change only the written locations in ALL backing stores, aliases agree, wide accesses compose little-endian.",
            "Device windows without installed handlers behave as plain memory; reference knows only the applied configuration.", "DESIGN.md 3/C11"),
    "C12": ("exploration",
            "online trace checker over per-step observation records of the real PCE500Emulator and CoreRuntime (entry recognised from architectural effects, shadow frame stack for RETI, bounded-progress counter, HALT/OFF clauses) under enumerated and seeded event schedules; hook on _set_isr_bits for the KEYI clause",
            "Held (modulo listed findings) on all event sequences up to depth 2 at all placements in a 10-step window (thorough: depth 3 over a 14-event alphabet) for 3 base programs and on seeded runs of 50-400 steps over 7 main-loop shapes (busy, HALT, OFF, WAIT, master-enable toggling by byte and by 16-bit store, software interrupts) with and without PCE500Emulator.fast_mode, a phase sweep of every timer period against every loop, stack frames on every alignment across overlay/card edges, directed key/ON-key-during-handler windows, and handlers ending in plain or PRE-prefixed RETI with timers of period 1-9 cycles, key/ON events and firmware-style IMR/ISR writes: every entry had master+source enable and a pending bit, pushed [IMR,F,PC] frame correct, bit 7 cleared, RETI restored PC/F/IMR/S, eligible requests delivered within 2 boundaries, halted CPUs frozen and woken exactly by status bits.",
            "Handlers start with NOP so both delivery conventions expose the frame; liveness restated as bounded progress.", "DESIGN.md 3/C12"),
    "C13": ("exploration",
            "reference-arithmetic monitor + cross-core comparison on every tick of the real TimerScheduler.advance and TimerContext::tick_timers; icontract postcondition on advance(); machine-level runs of both real machines with a counting hook on advance() (one fire per boundary crossed, also inside multi-cycle WAIT) and live keyboard",
            "Held on all period pairs 0..12 x 0..12 x enabled, sampled large periods, every-cycle and gap sequences with resets and snapshot/restore points: fire pattern, next targets strictly in the future, ISR bits, exactly-once on every-cycle sequences, Python == Rust.",
            "Unit level plus machine level (NOP/HALT/WAIT programs, complete small period grid incl. period 0); for gaps longer than a period the statement promises one fire and a target in the future only.", "DESIGN.md 3/C13"),
    "C14": ("exploration",
            "online clause monitor driven by the ground truth of issued operations (KIL soundness/completeness, per-key event automaton with cadence and bounded release, FIFO only-oldest-dropped, KEYI edge) on the real Python KeyboardMatrix/handler and Rust KeyboardMatrix; icontract invariant on _enqueue_event",
            "Held (modulo listed findings) on seeded adversarial histories under both polarities and 81 threshold settings (incl. bursts of 9-14 keys debounced on one tick, repeat switched off, polarity through the setter), and on all histories up to length 4/5 over a 3-key/2-strobe alphabet; the queue is compared with the tail of (previous queue + generated events), release events need `release` consecutive gap ticks.",
            "Each model is judged at its own documented consumption points; Python KEYI is monitored at machine level in C12.", "DESIGN.md 3/C14"),
    "C15": ("exploration",
            "reference HD61202-pair monitor after every window access on the real Python HD61202Controller and Rust LcdController, cross-model comparison, complete VRAM-bit -> pixel ownership enumeration, per-write display diff",
            "Held (modulo listed findings) on seeded histories (with mid-history controller resets) over all 16 low-nibble decodings and mirrors, on all sequences of <= 2/3 operations over a 24-op alphabet, and on the complete 8192-bit flip map of both models (Rust under 5 start lines): state, read values, one-owner-per-pixel, one column per data write.",
            "Reference is the protocol text of the property; display composition is compared per model only.", "DESIGN.md 3/C15"),
    "C16": ("fault_enumeration",
            "record-by-record comparison of the observed future of the original machine and of a freshly constructed machine that loaded the snapshot, with the snapshot taken at EVERY step boundary of seeded runs of the real PCE500Emulator and CoreRuntime; metamorphic no-perturbation run; cross-model load of every 3rd snapshot; registers.bin decoded against live registers",
            "Held (modulo listed findings) for every step boundary as snapshot point of 64 (quick) / 320 (thorough) seeded runs per model (running, halted, powered off, inside hardware and software-interrupt handlers incl. nested, pending/masked requests, keys held, FIFO non-empty/full, LCD busy, mid-subroutine, card window edges) x K=30/45 further steps and inputs: registers, all IMEM bytes, RAM, stack, LCD registers+VRAM, KIL/FIFO, ISR/IMR, power state identical at every step; saving never perturbed the original; each model loaded the other's files into the same observable state.",
            "Continuations are bounded (K steps); bookkeeping-only fields (counters, last source) are counted, not judged.", "DESIGN.md 3/C16"),
    "C17": ("other",
            "complete comparison of live tables dumped from the running Python modules and the real Rust crate + behavioural recovery of private tables by executed probes on both cores",
            "All 256 opcode entries x 4 fields, decoded-instance operand widths of every MVW/EXW/MVP/EXP encoding, immediate-width and register-selector behaviour of both cores, register width/layout copies, ~100 constants, 87 key codes, 15 PRE bytes, 58 single-operand opcodes x 2 prefixes, both vectors, both Binary Ninja views: compared completely (finite space).",
            "Two small projections normalise operand shapes and width units.", "DESIGN.md 3/C17"),
    "C18": ("exploration",
            "online checker over the resumption log (current_cycle() at every resumption), the DriverRunResult sequence and clock() of the real AsyncDriver driven with scripted tasks under several budget partitions (wake-time arithmetic from the scripts, monotone time, budget respect, events exactly once in emission order, metamorphic partition invariance); differential AsyncRuntimeRunner vs CoreRuntime::step on full machine observations",
            "Held on all single tasks of <= 3 steps over {sleep 0,1,2,3,7, bare Pending} x {emit, no emit}, all pairs (quick) and triples (thorough) of tasks of <= 2 steps over the reduced alphabet, under 4-7 budget partitions each plus two 'disturbed' runs (a second live driver and host block_on calls between the calls), on seeded sets of 1-4 tasks with up to 6 steps (incl. sleeps created before they are awaited, parked tasks), durations up to 2^33 and start clocks up to 2^40, and on 480 (quick) / 8000 (thorough) generated programs and interrupt/timer/keyboard ROM templates x slice sizes {1,2,3,10,10000} x split instruction counts.",
            "Same-cycle order is compared across partitions, not against a model; tasks emit at most one event per resumption as the statement allows.", "DESIGN.md 3/C18"),
}

NOT_APPLICABLE = []  # filled automatically for properties without a check (reason below)
PENDING_REASON = "check not built yet in this session; design in DESIGN.md section 3 - not claimed until the monitor exists and is silent on the unchanged tree"


# additions of later rounds: (appended to the technique, appended to the level text)
EXTRA = {
    "C01": ("; one long-lived Emulator re-fetching an address in line after its bytes changed; the same encodings decoded in two processes in opposite orders",
            " Also: in-line re-fetch on a long-lived Emulator after the bytes changed, and same-mnemonic forms decoded in opposite orders in two processes (outcomes compared across processes)."),
    "C03": ("; same-mnemonic forms back to back in both orders in one process; half of the cases followed by a hostile twin of the same opcode",
            " Same-mnemonic opcode forms are executed back to back under every prefix in ascending and descending order; half of all cases are followed by the same opcode with another selector (lookahead must not leak)."),
    "C04": ("", " CMPP (m),r3 with a memory value above 20 bits and POPU X/Y of such a value are judged per README (24-bit compare; 20-bit register)."),
    "C06": ("; I = 0 shard and counts up to 0xFFFF", " Every counted opcode is also run with I = 0 and with counts 0x8001/0xFFFF."),
    "C07": ("; in-line predecessor executions; CPUStepper input-purity and same-inputs-twice monitors",
            " A NOP one byte below falls through to the case's address while other bytes sit there, then the case runs in line; every CPUStepper.step must leave its inputs alone and repeat its result."),
    "C11": ("; Python configuration histories; mirror aliases of write-protected cells",
            " Python memory objects are also reconfigured before use (keyboard handler on/off, scratch window, card in/out); mirror aliases of read-only cells are probed."),
    "C12": ("; RETI retirement judged against the sources enabled and pending at entry", " RETI must not clear a status bit that was masked or not pending when the interrupt was taken."),
    "C13": ("; host re-arm (reset at the current cycle) at every step across main loop and handler with bounded-progress oracle",
            " The host re-arms the timers (and optionally restarts the program) at every step of a window covering main loop and handler: the main timer must keep interrupting."),
    "C14": ("; machine-level key-interrupt clause on both complete machines", " The key-interrupt clause is also monitored on PCE500Emulator and CoreRuntime runs (where the decision is actually taken)."),
    "C15": ("; start-line rotation relation on the Rust pixel map", " The Rust pixel map under start line s must be its own s=0 map rotated by s lines."),
    "C16": ("; reach counter for snapshot points inside software-interrupt handlers", " Snapshot points inside a software-interrupt handler are a required monitor (zero = inconclusive)."),
    "C17": ("; behavioural probes of the internal-memory window extent and of the PRE slot of [lmn] forms", " Internal window extent (first/last offset, block wrap) and the PRE slot used by MV [lmn],(n) forms are probed on both cores."),
    "C18": ("; host future emitting inside block_on", " The disturbing host future emits a sentinel event that no driver may return."),
}


# round 10 additions (same shape as EXTRA; applied after it)
EXTRA2 = {
    "C02": ("; complete second-byte sweeps of the memory-indirect and register-indirect families",
            " All 256 second bytes (all prefixes) of the [(n)], [r3] and [r3+-n] opcode families are swept in both tiers."),
    "C05": ("; one long-lived emulator executing the same bytes at another address first",
            " Each branch case is also executed on a long-lived emulator after the same bytes ran at another address (same PC as on a fresh emulator)."),
    "C08": ("; PC through pc()/set_pc(); runtime snapshot files over two generations",
            " PC is also named through the dedicated accessors; register snapshots travel through the runtime's own files for two generations."),
    "C09": ("; complete register-pair selector sweeps in the quick tier", ""),
    "C10": ("; code/text sections continued without a new origin", ""),
    "C11": ("; wide CPU stores across LCD window edges", ""),
    "C13": ("; main loop executing RESET; Python restart (reset()) variant of the re-arm stage",
            " Programs that execute RESET keep the timer grid; PCE500Emulator.reset() at every step (incl. inside the handler) must leave the timer interrupting."),
    "C14": ("; initial strobe state delivered inside a loaded snapshot (Rust)", ""),
    "C15": ("; earlier snapshots stay values; fresh-replay render equality (Python)",
            " A kept get_snapshot() result must not change later; a fresh controller replaying the history renders the same picture."),
    "C16": ("; directed keyboard-interrupt runs with a KEY-handler reach counter",
            " Snapshot points inside the KEY handler (handler reading KIL with and without acknowledging) are a required monitor."),
}


def main():
    checks = []
    for pid, (cat, tech, text, note, ref) in sorted(CHECKS.items()):
        c = pid.lower()
        tech += EXTRA.get(pid, ("", ""))[0] + EXTRA2.get(pid, ("", ""))[0]
        text += EXTRA.get(pid, ("", ""))[1] + EXTRA2.get(pid, ("", ""))[1]
        checks.append({
            "property_id": pid,
            "quick_cmd": f"/venv/bin/python -m vt.run {c} --tier quick",
            "thorough_cmd": f"/venv/bin/python -m vt.run {c} --tier thorough",
            "evidence_file": f"/verif/evidence/{pid}.json",
            "replay_cmd_template": f"/venv/bin/python -m vt.run {c} --replay {{path}}",
            "engine": "vt",
            "level_claimed": {"category": cat, "text": text, "design_ref": ref},
            "level_note": note,
            "technique": tech,
        })
    m = {
        "version": 1,
        "setup_cmd": "bash tools/setup.sh",
        "hooks": {
            "guard": "BINJA_ESR_VERIF",
            "enable": "no hooks are compiled into /repo; monitors attach from the harness (icontract wrappers, logging subclasses, a Rust client binary). BINJA_ESR_VERIF=1 is exported by the checks for forward compatibility only.",
            "baseline_off_cmd": "bash /verif/tools/baseline_off.sh",
            "source_commits": [],
            "add_only": True,
        },
        "engines": [
            {"name": "vt", "path": "/verif/vt", "serves_properties": sorted(CHECKS),
             "kind_free_text": "Python runtime-monitoring framework (sharded subprocess workers, online oracles, reference models, icontract in-path contracts) plus Rust client harness /verif/rust/harness driving the real sc62015-core crate"},
        ],
        "checks": checks,
        "not_applicable": NOT_APPLICABLE + [
            {"property_id": json.loads(l)["id"], "reason": PENDING_REASON}
            for l in (ROOT / "properties.jsonl").read_text().splitlines()
            if l.strip() and json.loads(l)["id"] not in CHECKS],
        "notes": "Exit codes: 0 held, 1 violated (VIOLATION line), 2 inconclusive (monitor never reached / watchdog / build failure; no VIOLATION line). Known findings: /verif/known_findings.json.",
    }
    (ROOT / "MANIFEST.json").write_text(json.dumps(m, indent=1) + "\n")
    print("wrote MANIFEST.json with", len(checks), "checks")


if __name__ == "__main__":
    main()
