#!/bin/bash
# Offline setup after a fresh restore: install icontract next to the repo's interpreter and build the Rust harness.
set -e
cd "$(dirname "$0")/.."
export CARGO_NET_OFFLINE=true PIP_NO_INDEX=1
/venv/bin/python -c "from vt import repoenv; repoenv.ensure_deps(); repoenv.ensure_rust(); print('setup ok')"
